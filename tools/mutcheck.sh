#!/bin/bash
# development aid: run checks against a scratch copy of /repo with a sed mutation applied (never touches /repo)
# usage: tools/mutcheck.sh '<sed expr>' <file relative to repo> <PROP> [more check args]
set -e
D=$(mktemp -d /tmp/mut.XXXX)
cp -r /repo/hidc "$D/hidc"
sed -i "$1" "$D/$2"
if diff -q /repo/$2 "$D/$2" >/dev/null; then echo "MUTATION DID NOT APPLY"; rm -rf "$D"; exit 9; fi
diff /repo/$2 "$D/$2" | head -6
shift 2
HIDV_REPO="$D" /verif/check "$@" 2>&1 | grep -v "^UNDECIDED\|^ERROR" | tail -4 || true
rm -rf "$D"
