#!/bin/bash
# for each second-batch seed: run the property's quick check with the patch applied to /repo, record which obligations fail, keep the seed, remove the worktree
BATCH=${BATCH:-seed}; SUFFIX=${SUFFIX:-batch2}
for id in "$@"; do
  wt=/tmp/$BATCH/$id
  out=$(/verif/tools/seedrun.sh $wt/SEED/patch.diff $id 2>&1)
  echo "=== $id"; echo "$out" | tail -6
  det=$(echo "$out" | /verif/.venv/bin/python -c "
import sys,json,re
v=[l.split('replay=')[1].split()[0].rsplit('/',1)[-1].replace('.json','') for l in sys.stdin if l.startswith('VIOLATION')]
print(json.dumps({'check':'./check $id (quick)','failed_obligations':v,'detected':bool(v)}))")
  name=$(python3 -c "import json;print(json.load(open('$wt/SEED/meta.json')).get('short_name',''))" 2>/dev/null)
  /verif/.venv/bin/python /verif/tools/seed_keep.py $wt "$id-$SUFFIX" "$det" | tail -12
done
