#!/usr/bin/env python3
"""keep a confirmed seeded change: tools/seed_keep.py <worktree> <id> '<detected-by json>'"""
import sys, os, json, shutil, subprocess
wt, sid, detected = sys.argv[1], sys.argv[2], json.loads(sys.argv[3])
dst = f'/verif/seeded/{sid}'
os.makedirs(dst, exist_ok=True)
for f in ('patch.diff', 'demo.hid', 'demo.py', 'demo_args.txt'):
    p = os.path.join(wt, 'SEED', f)
    if os.path.exists(p): shutil.copy(p, dst)
meta = json.load(open(os.path.join(wt, 'SEED', 'meta.json')))
def run(tree):
    a = [sys.executable, '/verif/tools/seed_demo.py', tree, os.path.join(dst, 'demo.hid')]
    if os.path.exists(os.path.join(dst, 'demo_args.txt')): a.append(os.path.join(dst, 'demo_args.txt'))
    co = meta.get('compile_options', {})
    if co.get('word_size_bytes'): a += ['--w', str(co['word_size_bytes'])]
    if co.get('stack_size_words'): a += ['--s', str(co['stack_size_words'])]
    if co.get('unchecked'): a.append('--unchecked')
    return json.loads(subprocess.run(a, capture_output=True, text=True).stdout or '{}')
conf = {}
if os.path.exists(os.path.join(dst, 'demo.hid')):
    conf = {'demo_on_unchanged_tree': run('/repo'), 'demo_on_changed_tree': run(wt)}
if os.path.exists(os.path.join(dst, 'demo.py')):
    def rp(tree):
        r = subprocess.run(['/venv/bin/python', os.path.join(dst, 'demo.py')], cwd=tree, env={**os.environ, 'PYTHONPATH': tree}, capture_output=True, text=True)
        return {'exit': r.returncode, 'out': (r.stdout + r.stderr)[-400:]}
    conf.update({'demo_py_on_unchanged_tree': rp('/repo'), 'demo_py_on_changed_tree': rp(wt)})
t = subprocess.run(['/venv/bin/python', '-m', 'pytest', '-q', '-p', 'no:cacheprovider', 'tests/test_lexer.py', 'tests/test_parser.py', 'tests/test_typecheck.py'],
                   cwd=wt, capture_output=True, text=True).stdout.strip().splitlines()[-1]
meta['confirmed_by_me'] = {'pinned_tests_on_changed_tree': t, **conf,
                           'what_i_ran': 'pinned test files in the scratch worktree; demo compiled by both trees and run on hidv.sphinx.svm (tools/seed_demo.py); '
                                         'checks via tools/seedrun.sh (git -C /repo apply; ./check; git -C /repo checkout -- .)'}
meta['detected_by'] = detected
json.dump(meta, open(os.path.join(dst, 'meta.json'), 'w'), indent=1)
print(json.dumps(meta['confirmed_by_me'], indent=1)[:900])
