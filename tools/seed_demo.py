#!/usr/bin/env python3
"""run a seeded demo.hid on the concrete VM against a given tree: seed_demo.py <tree> <demo.hid> [args-file] [--w N] [--s N] [--unchecked]"""
import sys, os, json
tree = sys.argv[1]; demo = sys.argv[2]
sys.path.insert(0, '/verif'); sys.path.insert(0, tree)
os.environ['HIDV_REPO'] = tree
from hidv.sphinx import svm
args = []
w = 2; s = 500; unchecked = False
rest = sys.argv[3:]
i = 0
while i < len(rest):
    if rest[i] == '--w': w = int(rest[i+1]); i += 2
    elif rest[i] == '--s': s = int(rest[i+1]); i += 2
    elif rest[i] == '--unchecked': unchecked = True; i += 1
    else:
        args = [l.rstrip('\n') for l in open(rest[i]) if l.strip() != '']; i += 1
src = open(demo).read()
try:
    res, vm = svm.run_hid(src, args=args, word_size=w, stack_size=s, unchecked=unchecked, max_steps=3_000_000)
    print(json.dumps({'end': res, 'output': vm.out.decode('latin1'), 'flags': vm.flags, 'oob': len(vm.oob)}))
except Exception as e:
    print(json.dumps({'error': f'{type(e).__name__}: {e}'}))
