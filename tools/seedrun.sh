#!/bin/bash
# apply a seeded patch to /repo, run the given checks, undo the patch straight afterwards
# usage: tools/seedrun.sh <patch.diff> <PROP> [<PROP> ...]
P="$1"; shift
git -C /repo apply "$P" || { echo "PATCH DOES NOT APPLY"; exit 9; }
for prop in "$@"; do
  /verif/check "$prop" 2>/dev/null | grep -E "^VIOLATION|^\[" | sed -e 's/replay=.*replays/replay=.../' | awk 'NR<=12 || /^\[/'
done
git -C /repo checkout -- .
git -C /repo status --short | head -3
# evidence files written while a seeded change was applied describe that tree, not the repository: restore the committed ones
git -C /verif checkout -- evidence 2>/dev/null
