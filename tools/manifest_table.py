"""Source of truth for MANIFEST.json (tools/gen_manifest.py renders it)."""

TARGET_NOTE = ('Assumed, not checked: the Sphinx ISA transcription in contracts/isa.py (no emulator offline; corroborated by upstream '
               'tests/test_codegen.py passing on hidv/sphinx/svm.py) incl. DIV=floor; assembler conventions (Nw, immediates wrapped, .ascii escapes); '
               'CPython executing the real CodeGen methods; z3. On paper: the structural induction that assembles the per-construct lemmas (each '
               'discharged for all run-time values, all frame offsets, abstract children) into "all programs"; contracts of abstract children '
               '(DESIGN Appendix B). The harness overrides eval_expr/gen_block for abstract nodes only and supplies proxy integers (SymInt).')
PY_NOTE = ('Assumed, not checked: CPython semantics of the interpreted subset as encoded in hidv/pyvc/core.py (builtin contracts listed in evidence), z3; '
           'nesting inductions over the grammar / AST on paper.')

ENGINES = [
    {'name': 'sphinxsem', 'path': 'hidv/sphinx/sem.py', 'serves_properties': ['C01', 'C02', 'C03', 'C04', 'C05', 'C08', 'C09', 'C13', 'C15', 'C16', 'C17'],
     'kind_free_text': 'bottom-collapsing symbolic semantics of the rendered Sphinx assembly (Turing jump j X; rest = rest |> X); machine words as integers mod 2^(8w); obligations to z3'},
    {'name': 'harness', 'path': 'hidv/harness', 'serves_properties': ['C01', 'C02', 'C03', 'C04', 'C05', 'C08', 'C09', 'C10', 'C15', 'C16'],
     'kind_free_text': 'the real CodeGen methods executed by CPython on abstract children and symbolic frame offsets; reference semantics of HiD as trace-directed specification'},
    {'name': 'pyvc', 'path': 'hidv/pyvc/core.py', 'serves_properties': ['C06', 'C07', 'C10', 'C11', 'C12', 'C13', 'C14', 'C18'],
     'kind_free_text': 'path-wise symbolic execution of the text of Python functions of /repo (re-read on every run), modular callee contracts, await = oracle; z3 / complete enumeration of finite domains'},
    {'name': 'svm', 'path': 'hidv/sphinx/svm.py', 'serves_properties': [], 'kind_free_text': 'concrete VM (same assumed ISA) used only to replay counterexamples on hidc-compiled programs'},
]

HOOK_COMMITS = []

NOTES = ('Contract-based deductive verification of the real code: sidecar contracts in /verif/contracts, nothing annotated in /repo. '
         'Each check regenerates every obligation from /repo\'s working tree. exit 0 all discharged (or listed known findings), 1 VIOLATION, 2 undecided, 3 machinery error. '
         'See DESIGN.md; known_findings.json lists recorded and fixed defects.')


def T(text, technique, note=TARGET_NOTE, ref='DESIGN.md section 8'):
    return {'text': text, 'technique': technique, 'note': note, 'design_ref': ref, 'engine': 'hidv'}


SIM = 'simulation lemmas: real generator method on abstract children -> rendered assembly -> symbolic leaves -> z3, against a reference semantics'

CLAIMED = {
    'C01': T('Every sequential construct of the generator (expressions, casts, statements, blocks, arrays, calls, function prologue) has a simulation lemma: the text the real '
             'method emits, for all run-time values and all frame offsets, with arbitrary (contracted) children, does exactly what the reference semantics of HiD prescribes: same '
             'children in the same order once each, same events, same stores, same result (incl. array declarations, block-scoped arrays, globals, entry frame: bounded in the number '
             'of entry parameters). A failed obligation is replayed by executing the emitted text on the concrete VM from the solver\'s model. Proof per construct; assembling '
             'constructs into whole programs is a paper induction.', SIM),
    'C02': T('Lemmas with written-out leaf sets for try/undo, try/stop, preempt, ??, !is_defeat/!truth_is_defeat, exits out of a try: which block runs under which condition on the '
             'children, that the unchosen block leaves nothing, and that fp, ap and the defeat word are as at try entry afterwards (history clause = invariant at every construct boundary).',
             'leaf-set contracts on emitted assembly under the Turing-jump semantics, z3'),
    'C03': T('No lemma has a committed halt of its own outside defeat context (a defeat leaf must be caused by a child that reached defeat); terminal stubs and the sleep loop proved '
             'on the library text; flavour/context guards (C06) proved both directions; defeat primitives, preempt and blocks in all three defeat contexts (real halt, defeat function, try/stop body '
             'of a you-function); Block.evaluate is structure preserving for every child mode set (no handler dropped on the strength of exit modes).',
             'no-bottom-leaf postcondition on every lemma + stub contracts'),
    'C04': T('Every load/store/indirect jump executed by every lemma (checked builds) is proved to stay inside [ap, fp), a live array extent or a global, assuming only the invariant the '
             'guards establish; guard templates proved exact; library routines proved against what the caller guarded.', 'SAFE obligations on symbolic execution of emitted text, z3'),
    'C05': T('Biconditional contracts: division/modulo guard, index guard, dynamic array length/space guard, function entry guard fault exactly when the condition holds, before the '
             'faulting operation and before anything the source orders later; stubs raise exactly their flags.', 'exact (iff) guard lemmas, z3'),
    'C06': T('Every grammar rule that threads a BlockContext is interpreted path-wise with await as an oracle; for all well-formed contexts the context handed to every sub-rule and every '
             'accept/reject guard is proved to be the one the property prescribes, both directions.', 'pyvc path exploration x complete enumeration of contexts', PY_NOTE),
    'C08': T('At every exit of every lemma (fall-through, break, continue, return, handler) fp is unchanged and ap is the value prescribed (entry value, loop restore point, function '
             'base); calls preserve the caller frame by the callee contract; block-scoped literal/dynamic/nested arrays; while a child runs, ap is not below its value at the entry '
             'of the construct (arrays in scope stay allocated); break/continue take restore point and defeat from the real LoopInfo of the innermost loop.',
             'INV / CHILD-ARRAYS obligations at lemma exits and child invocations, z3'),
    'C09': T('Operator and cast lemmas hold for all operand values (integer reasoning over the whole word, not a grid) in value, branch and defeat position, at the enumerated word sizes; '
             'halt_inversion and compare_map are exercised through the real bool_expr_branch/truth_is_defeat.', SIM),
    'C10': T('No real generator method raises an internal exception on any abstract input used by the lemmas (NOERR on every lemma); every grammar rule raises only ParserError; '
             'lexer readers raise only LexerError on all inputs (incl. huge and malformed escapes); rendering functions total for all bytes. Diagnostics: every raise site of a '
             'CompilerError is inventoried from the source, and for a witness corpus reaching the sites the error is located inside the source and renders; the CLI leaves no output '
             'file on failure; a generated corpus of accepted programs (every declaration form x element type x length 0..17, the examples) compiles to well-formed assembly '
             '(corpus parts are labelled bounded). Whole-compiler totality over all inputs is an induction on paper over these per-function contracts (DESIGN 14).',
             'NOERR obligations + pyvc raises-only contracts + raise-site inventory with witness corpus', PY_NOTE),
    'C11': T('Contracts on the ladder ps_expr0..8/ps_expr and on bin_op (left fold for an arbitrary accumulated expression): operand rule, operator set = documented level, grouping. '
             'Round trip: bounded stand-in (all pairs and triples).', 'pyvc path exploration of the grammar rules', PY_NOTE),
    'C13': T('Per-byte escape contract by complete enumeration, loop contract of _escape_bytes for an arbitrary prefix (pyvc), IntLiteral/directive rendering; constant arrays: '
             'frame (reads/modifies) contract of add_global_array/label_for_string/add_label, content-and-length of every constant array int/byte/bool of length 0..40 read back with '
             'the stated assembler grammar, non-interference of pairs, string table; element layout and string lookups through the C01 array lemmas.',
             'enum (finite, exhaustive) + pyvc loop contract + frame clause'),
    'C14': T('For every foldable operator and literal cast the real simplify()/cast() text is executed on symbolic unbounded integers and proved to commute with the run-time operation '
             'on wrapped operands; out-of-range operands are recorded known findings (folding without word size). Effects: for every operator/cast and literal/non-constant operands '
             'the folded tree keeps every operand the source semantics evaluates.', 'pyvc + z3 (integers) + enum over operand shapes', PY_NOTE),
    'C15': T('Every lemma is discharged for unchecked builds as well, against the same reference semantics restricted to fault-free runs.', SIM),
    'C16': T('Emitted code of every block construct never falls through / breaks unless the real exit_modes() says so, for all 31^k child mode sets; function prologue lemma: nothing '
             'executes after a body that cannot fall through; sequential composition of modes in CodeBlock.evaluate for all mode sets of 2 and 3 block statements; preemptive marker '
             '(a preempt block anywhere makes a defeat function preemptive).', 'enum over mode sets x symbolic leaves'),
    'C17': T('Library text: write(bool), byte/string loops (loop contracts with ghost index), write(int) (entry/sign/minimum, digit-loop step for every digit count, hand-over), '
             'dispatch by storage through the call lemmas.', 'loop contracts on the real stdlib text, z3'),
    'C07': T('Contracts on the real typing functions: coercibility lattice (Type.coercible / literal shrinkability incl. folded arithmetic) against the documented table by complete '
             'enumeration over all type pairs and literal shapes; every statement rule (declaration, assignment, inc-assignment, return, call arity/types, const-ness, shadowing, '
             'duplicates, nested/empty arrays, casts) accept-iff-documented over an enumerated rule x context domain; overload resolution (FuncCall.evaluate interpreted path-wise with '
             'coercible answered by an oracle, all answers): exact match first, else first declared overload every argument coerces to; the overload table keeps declaration order '
             'through type checking; the typed tree evaluate() builds denotes the documented value for all operand values (py_typed).',
             'complete enumeration of the finite type lattice and rule domain on the real evaluate()/coercible() + pyvc path exploration of FuncCall.evaluate', PY_NOTE),
    'C12': T('Token regular expressions of the real lexer proved equivalent (automata over a class-representative alphabet) to the documented token grammar; keyword/operator tables '
             'and every escape by complete enumeration; read_int value contract for all digit strings in all bases (z3 integers + enumeration of digit tables); scanner span '
             'arithmetic; lex span protocol (every token span is exactly the consumed text); source lines end at line feeds only; readers raise only LexerError. Longest-match '
             'and layout independence: bounded stand-in (all operator-character strings up to a stated length; layouts from a stated alphabet), labelled bounded.',
             'regex automata equivalence + enum + z3 string/integer obligations on the real lexer text', PY_NOTE),
    'C18': T('Determinism: syntactic reads clause over the generator/typechecker (no iteration over sets or hash-ordered containers, no id()/hash()/time/random/environment reads in '
             'functions that emit) plus bounded cross-hash-seed compilation; lint: the lint option is read only at sites that raise; stack size: stack_size is read only in the '
             'entry/overflow guards (monotone); word size: every simulation lemma is discharged at w=2 and again at wider words (w=3 in quick for scale-sensitive families; '
             '3,4,8 in thorough) against the same reference semantics.',
             'reads-clause contracts (syntactic frame) + simulation lemmas at several word sizes', PY_NOTE),
}

NOT_CLAIMED = {}
