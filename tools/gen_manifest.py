#!/usr/bin/env python3
"""Regenerates MANIFEST.json from the table below (maintenance tool; the table is the source of truth)."""
import json, os, sys
ROOT = os.path.dirname(os.path.dirname(os.path.abspath(__file__)))

TARGET_NOTE = ('Trusted: the Sphinx ISA transcription in contracts/isa.py (no emulator offline; corroborated by upstream tests/test_codegen.py '
               'passing on hidv/sphinx/svm.py), assembler conventions, CPython executing the real CodeGen methods, z3; the structural induction that '
               'assembles per-construct lemmas into "all programs" is on paper.')
PY_NOTE = 'Trusted: CPython semantics as encoded in hidv/pyvc (listed builtin axioms), z3/cvc5; nesting inductions on paper.'

CLAIMED = {
    # id: (technique, level text, note, design_ref)
}

NOT_YET = {}


def main():
    props = [json.loads(l) for l in open(os.path.join(ROOT, 'properties.jsonl'))]
    sys.path.insert(0, ROOT)
    from tools import manifest_table as T
    checks = []
    na = []
    for p in props:
        pid = p['id']
        if pid in T.CLAIMED:
            c = T.CLAIMED[pid]
            checks.append({
                'property_id': pid,
                'quick_cmd': f'./check {pid} --tier quick',
                'thorough_cmd': f'./check {pid} --tier thorough',
                'evidence_file': f'evidence/{pid}.json',
                'replay_cmd_template': f'./check {pid} --replay {{path}}',
                'engine': c.get('engine', 'hidv'),
                'level_claimed': {'category': 'proof', 'text': c['text'], 'design_ref': c.get('design_ref', 'DESIGN.md section 8')},
                'level_note': c['note'],
                'technique': c['technique'],
            })
        else:
            na.append({'property_id': pid, 'reason': T.NOT_CLAIMED.get(pid, 'check not built yet')})
    m = {
        'version': 1,
        'setup_cmd': './setup.sh',
        'hooks': {'guard': 'HIDC_VERIF', 'enable': 'none needed: the harness subclasses the real CodeGen and re-reads /repo sources; there is no hook code in /repo',
                  'baseline_off_cmd': 'cd /repo && /venv/bin/python -m pytest -ra -q -p no:cacheprovider --timeout=900 --continue-on-collection-errors',
                  'source_commits': T.HOOK_COMMITS, 'add_only': True},
        'engines': T.ENGINES,
        'checks': checks,
        'notes': T.NOTES,
        'not_applicable': na,
    }
    json.dump(m, open(os.path.join(ROOT, 'MANIFEST.json'), 'w'), indent=1)
    try:
        import jsonschema
        jsonschema.validate(m, json.load(open('/root/.vp/MANIFEST.schema.json')))
        print('MANIFEST.json valid;', len(checks), 'checks,', len(na), 'not claimed')
    except ImportError:
        print('written (jsonschema not available to validate)')


if __name__ == '__main__':
    main()
