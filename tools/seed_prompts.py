#!/usr/bin/env python3
"""writes /tmp/<batch>/<id>.prompt for every property and creates a scratch worktree of /repo per property (sub-agents get nothing from /verif)"""
import json, os, subprocess, sys
batch = sys.argv[1]
avoid = json.load(open(sys.argv[2])) if len(sys.argv) > 2 else {}
base = f'/tmp/{batch}'
os.makedirs(base, exist_ok=True)
TEST = 'cd {wt} && /venv/bin/python -m pytest -ra -q -p no:cacheprovider --timeout=900 --continue-on-collection-errors'
for line in open('/verif/properties.jsonl'):
    p = json.loads(line)
    pid = p['id']
    wt = f'{base}/{pid}'
    if not os.path.exists(wt):
        subprocess.run(['git', '-C', '/repo', 'worktree', 'add', '--detach', wt, 'HEAD'], check=True, capture_output=True)
    os.makedirs(f'{wt}/SEED', exist_ok=True)
    used = avoid.get(pid, [])
    txt = f"""You are helping to evaluate a verification framework for the compiler `hidc` (Halt is Defeat -> Sphinx assembly, pure Python).
Your scratch copy of the repository is the git worktree {wt} (work ONLY there; never touch /repo; never read anything under /verif).
Start from README.rst (language reference) and the hidc/ package.

PROPERTY {pid}: {p['title']}
Statement: {p['statement']}
Quantifier: {p['quantifier']['text']}
Anchors: {json.dumps(p.get('anchors', {}))}

TASK. Make ONE small, realistic change to the compiler source in {wt}/hidc (the kind of change a maintainer could plausibly make: a refactoring slip,
an 'optimisation', an off-by-one, a wrong operand, a dropped case, a reordered step) such that
  (a) the compiler still imports and the pinned test-suite still passes:  {TEST.format(wt=wt)}
      (45 tests pass; tests/test_codegen.py cannot be collected, that is expected), and
  (b) the property above is now violated for SOME input, but only under specific circumstances: prefer a change that needs something specific to manifest
      (a particular operand shape, value range, word size, stack size, nesting, element type, option) over one that breaks everything.
There is no Sphinx emulator in this sandbox. You can compile programs (`cd {wt} && /venv/bin/python -m hidc file.hid -o out.s`, options -m <bits> -s <stack words> --unchecked --lint)
and read the emitted assembly; reason carefully about what the changed assembly does (README 'Sphinx' notes: `j X` is a Turing jump: taken iff not taking it leads to halt;
h<cc> halts if the condition holds). For properties about the Python front end (lexer, parser, typechecker, folding, diagnostics) demonstrate directly in Python.
{('Ideas ALREADY USED for this property in earlier rounds -- choose something clearly different (different function, different mechanism): ' + '; '.join(used)) if used else ''}

DELIVERABLES, written into {wt}/SEED/ :
  patch.diff   output of `git -C {wt} diff -- hidc` (the change, and nothing else; do NOT commit)
  demo.hid     a HiD program (if the property is about compiled code) for which the unchanged and the changed compiler produce different behaviour, small and deterministic;
               demo_args.txt (optional) one command line argument per line
  demo.py      (if the property is about the front end, or in addition) a script run as `cd <tree> && PYTHONPATH=<tree> /venv/bin/python SEED/demo.py` that exits 0 on the
               unchanged tree and non-zero on the changed tree, printing what differs
  meta.json    {{"property": "{pid}", "what_changed": "...", "needs_to_manifest": "...", "expected_correct": "what the demo prints/does with the unchanged compiler",
               "expected_broken": "what it prints/does with the changed compiler", "compile_options": {{"word_size_bytes": 2, "stack_size_words": 500, "unchecked": false}}}}
Check (a) yourself by running the test command. Keep the change minimal (a few lines). Finish by printing a three-line summary."""
    open(f'{base}/{pid}.prompt', 'w').write(txt)
print('prompts in', base)
