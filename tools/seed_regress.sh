#!/bin/bash
# regression over all kept seeded changes: apply each to /repo, run its property's quick check, undo; one summary line per seed
cd /verif
for d in seeded/${1:-*}/; do
  id=$(basename $d); prop=${id%%-*}
  git -C /repo apply /verif/$d/patch.diff || { echo "$id PATCH-DOES-NOT-APPLY"; continue; }
  out=$(./check $prop 2>/dev/null | grep -E "^VIOLATION|^\[")
  git -C /repo checkout -- .
  nv=$(echo "$out" | grep -c "^VIOLATION")
  nr=$(echo "$out" | grep "^VIOLATION" | grep -vc "no-failing-input-found")
  first=$(echo "$out" | grep "^VIOLATION" | head -1 | sed -e 's/.*replays\/[^\/]*\///' -e 's/\.json.*//')
  echo "$id violations=$nv with-replayed-input=$nr first=$first | $(echo "$out" | tail -1)"
done
git -C /repo status --short | head -3
# evidence files written while a seeded change was applied describe that tree, not the repository: restore the committed ones
git -C /verif checkout -- evidence 2>/dev/null
