#!/bin/bash
# Builds /verif/.venv offline: python 3.12 (the interpreter that runs /repo) + z3-solver, cvc5, jsonschema
# from the local wheelhouse.  Idempotent.
set -e
cd "$(dirname "$0")"
if [ ! -x .venv/bin/python ] || ! .venv/bin/python -c "import z3, jsonschema" 2>/dev/null; then
  rm -rf .venv
  /venv/bin/python -m venv .venv
  PIP_NO_INDEX=1 .venv/bin/python -m pip install -q --no-index --find-links /opt/veriftools/wheels \
      z3-solver cvc5 jsonschema >/dev/null
fi
.venv/bin/python -c "import z3, cvc5, jsonschema; print('venv ok, z3', z3.get_version_string())"
