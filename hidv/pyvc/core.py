"""Engine A -- pyvc: path-wise symbolic execution of the *text* of Python functions of /repo (DESIGN.md section 3).

The function under contract is located by qualified name in the real, freshly imported module, its source is re-read
with `inspect`/`ast` on every run, and its own AST is interpreted.  Values are real Python objects (module constants,
enum members, dataclass instances are the real ones) or symbolic proxies:

  ZInt(term)   integer (z3 Int: mathematical, unbounded -- Python's own semantics)
  ZBool(term)  boolean; taking its truth value forks the path (both sides explored by re-execution with a decision prefix)
  Sym(name)    opaque object with lazily created attributes (oracle results, spans, tokens ...)
  Acc(prefix)  a bytes/str/list accumulator with an arbitrary unknown prefix and a known suffix of appended parts

What the extraction drops: decorators, annotations, docstrings, comments (evidence: extraction_drops).
Calls: a callee with a registered contract is replaced by its contract (modular); a callee on the inline list (or any
repo function receiving a symbolic argument) is interpreted in place (INLINED, reported); everything else is called
natively by CPython on the real objects.
"""
from __future__ import annotations
import ast, inspect, textwrap, builtins, sys, types, operator
import z3


class OutsideSubset(Exception):
    pass


class Infeasible(Exception):
    pass


class LoopCut(Exception):
    """a loop was cut after the configured number of iterations (the path is abandoned; events so far are kept)"""


class _Return(Exception):
    def __init__(self, v): self.v = v


class _Break(Exception):
    pass


class _Continue(Exception):
    pass


# ---------------------------------------------------------------------------------------------------------------------
class Path:
    current = None

    def __init__(self, prefix=(), assumptions=()):
        self.cond = list(assumptions)
        self.decisions = list(prefix)
        self.pos = 0
        self.forked = []
        self.trace = []
        self.nfresh = 0
        self.solver_calls = 0

    def __enter__(self):
        self.prev = Path.current; Path.current = self; return self

    def __exit__(self, *a):
        Path.current = self.prev

    def feasible(self, f):
        s = z3.Solver(); s.set('timeout', 10000); s.add(*self.cond); s.add(f)
        self.solver_calls += 1
        r = s.check()
        if r == z3.unknown:
            raise OutsideSubset(f'feasibility undecided: {s.reason_unknown()}')
        return r == z3.sat

    def branch(self, f):
        """truth value of a symbolic condition on this path (forks when both are possible)"""
        f = z3.simplify(f)
        if z3.is_true(f): return True
        if z3.is_false(f): return False
        t = self.feasible(f); e = self.feasible(z3.Not(f))
        if t and not e: return True
        if e and not t: return False
        if not t and not e: raise Infeasible()
        d = self.choose(2) == 0
        self.cond.append(f if d else z3.Not(f))
        return d

    def choose(self, n, tag=None):
        """nondeterministic choice among n alternatives (explored exhaustively by the driver)"""
        if self.pos < len(self.decisions):
            c = self.decisions[self.pos][0]
        else:
            c = 0; self.decisions.append((0, n)); self.forked.append(self.pos)
        self.pos += 1
        return c

    def fresh_int(self, name):
        self.nfresh += 1
        return ZInt(z3.Int(f'{name}!{self.nfresh}'))

    def event(self, *e):
        self.trace.append(e)


def P() -> Path:
    return Path.current


def _z(x):
    if isinstance(x, ZInt): return x.t
    if isinstance(x, bool): return z3.IntVal(int(x))
    if isinstance(x, int): return z3.IntVal(x)
    raise TypeError(f'not an integer: {x!r}')


class ZBool:
    def __init__(self, t): self.t = t
    def __bool__(self): return P().branch(self.t)
    def __repr__(self): return f'ZBool({self.t})'
    def __invert__(self): return ZBool(z3.Not(self.t))
    def __and__(self, o): return ZBool(z3.And(self.t, o.t if isinstance(o, ZBool) else z3.BoolVal(bool(o))))
    def __or__(self, o): return ZBool(z3.Or(self.t, o.t if isinstance(o, ZBool) else z3.BoolVal(bool(o))))
    def __index__(self): return int(bool(self))
    def __lshift__(self, k):          # `b << bit` in pack_bools
        return ZInt(z3.If(self.t, 1, 0)) << k
    def __rlshift__(self, k): return NotImplemented
    def __hash__(self): return hash(self.t)


class ZInt:
    def __init__(self, t): self.t = t
    def __repr__(self): return f'ZInt({self.t})'
    def __hash__(self): return hash(self.t)
    def _b(self, o, f):
        if isinstance(o, (ZInt, int)) or isinstance(o, bool): return ZInt(f(self.t, _z(o)))
        if isinstance(o, ZBool): return ZInt(f(self.t, z3.If(o.t, 1, 0)))
        return NotImplemented
    def __add__(self, o): return self._b(o, lambda a, b: a + b)
    def __radd__(self, o): return self._b(o, lambda a, b: b + a)
    def __sub__(self, o): return self._b(o, lambda a, b: a - b)
    def __rsub__(self, o): return self._b(o, lambda a, b: b - a)
    def __mul__(self, o): return self._b(o, lambda a, b: a * b)
    def __rmul__(self, o): return self._b(o, lambda a, b: b * a)
    def __neg__(self): return ZInt(-self.t)
    def __pos__(self): return self
    # Python's // and % : floor division, sign of the divisor; ZeroDivisionError on 0
    def __floordiv__(self, o):
        b = _z(o)
        if P().branch(b == 0): raise ZeroDivisionError('integer division or modulo by zero')
        return ZInt(z3.If(b > 0, self.t / b, (-self.t) / (-b)))
    def __rfloordiv__(self, o): return ZInt(_z(o)).__floordiv__(self)
    def __mod__(self, o):
        b = _z(o)
        if P().branch(b == 0): raise ZeroDivisionError('integer division or modulo by zero')
        return ZInt(z3.If(b > 0, self.t % b, -((-self.t) % (-b))))
    def __rmod__(self, o): return ZInt(_z(o)).__mod__(self)
    def __and__(self, o):
        if isinstance(o, int) and o >= 0 and (o & (o + 1)) == 0:
            return ZInt(self.t % (o + 1))              # x & (2**k - 1) on Python ints (two's complement, unbounded) = x mod 2**k
        raise OutsideSubset(f'bitwise and with {o!r}')
    __rand__ = __and__
    def __lshift__(self, k):
        if isinstance(k, int): return ZInt(self.t * (1 << k))
        raise OutsideSubset('shift by symbolic amount')
    def __rshift__(self, k):
        if isinstance(k, int): return ZInt(self.t / (1 << k))     # floor for positive divisor
        raise OutsideSubset('shift by symbolic amount')
    def __or__(self, o):
        raise OutsideSubset('bitwise or on symbolic integers (use a contract)')
    def _c(self, o, f):
        if isinstance(o, (ZInt, int)): return ZBool(f(self.t, _z(o)))
        return NotImplemented
    def __eq__(self, o):
        r = self._c(o, lambda a, b: a == b)
        return False if r is NotImplemented else r
    def __ne__(self, o):
        r = self._c(o, lambda a, b: a != b)
        return True if r is NotImplemented else r
    def __lt__(self, o): return self._c(o, lambda a, b: a < b)
    def __le__(self, o): return self._c(o, lambda a, b: a <= b)
    def __gt__(self, o): return self._c(o, lambda a, b: a > b)
    def __ge__(self, o): return self._c(o, lambda a, b: a >= b)
    def __bool__(self): return P().branch(self.t != 0)
    def __int__(self): raise OutsideSubset('int() of a symbolic integer reached C code')
    __index__ = __int__


class Sym:
    """opaque symbolic object"""
    def __init__(self, name, cls=None, truthy=True, **attrs):
        object.__setattr__(self, '_name', name); object.__setattr__(self, '_cls', cls)
        object.__setattr__(self, '_attrs', dict(attrs)); object.__setattr__(self, '_truthy', truthy)
    def __getattr__(self, k):
        if k.startswith('__') and k.endswith('__'):
            raise AttributeError(k)
        a = self._attrs
        if k not in a:
            a[k] = Sym(f'{self._name}.{k}')
        return a[k]
    def __setattr__(self, k, v):
        self._attrs[k] = v
    def __repr__(self): return f'<{self._name}>'
    def __bool__(self):
        t = self._truthy
        if t is None:
            return P().choose(2) == 0
        return t
    def __or__(self, o): return Sym(f'({self._name}|{getattr(o, "_name", o)})')
    __ror__ = __or__
    def __add__(self, o): return Sym('cat', parts=(self, o))
    def __radd__(self, o): return Sym('cat', parts=(o, self))
    def __getitem__(self, k): return Sym(f'{self._name}[{k!r}]')
    def __eq__(self, o): return self is o
    def __hash__(self): return id(self)


class ZStr:
    """symbolic str (z3 String); indices are assumed non-negative (Scanner columns)"""
    def __init__(self, t): self.t = t
    def __repr__(self): return f'ZStr({self.t})'
    def __hash__(self): return hash(self.t)
    def __len__(self): raise OutsideSubset('len() of a symbolic string reached C code (use the len contract)')
    def length(self): return ZInt(z3.Length(self.t))
    def __getitem__(self, k):
        if isinstance(k, slice):
            if k.step is not None: raise OutsideSubset('slice step')
            lo = z3.IntVal(0) if k.start is None else _z(k.start)
            hi = z3.Length(self.t) if k.stop is None else _z(k.stop)
            # Python slicing for 0 <= lo: '' when lo >= len or hi <= lo, clipped at len -- the same as SubString(s, lo, hi-lo)
            return ZStr(z3.SubString(self.t, lo, hi - lo))
        return ZStr(z3.SubString(self.t, _z(k), 1))
    def _other(self, o):
        if isinstance(o, ZStr): return o.t
        if isinstance(o, str): return z3.StringVal(o)
        return None
    def __eq__(self, o):
        t = self._other(o)
        return False if t is None else ZBool(self.t == t)
    def __ne__(self, o):
        t = self._other(o)
        return True if t is None else ZBool(self.t != t)


class CoroCall:
    """an un-awaited call of an `async def` of the repository"""
    def __init__(self, f, args, kwargs):
        self.f = f; self.args = args; self.kwargs = kwargs
    def __repr__(self): return f'<coroutine {self.f.__qualname__}{self.args}>'


class Acc:
    """accumulator (bytes/str/list) = unknown prefix + known appended parts"""
    def __init__(self, name, parts=()):
        self.name = name; self.parts = tuple(parts)
    def __add__(self, o): return Acc(self.name, self.parts + (o,))
    __iadd__ = __add__
    def __repr__(self): return f'Acc({self.name}+{list(self.parts)})'


# ---------------------------------------------------------------------------------------------------------------------
def get_function(qualname, repo_module):
    """locate `Class.method` / `func` in the real imported module; returns (python function object, ast.FunctionDef)"""
    obj = repo_module
    for part in qualname.split('.'):
        obj = inspect.getattr_static(obj, part) if inspect.isclass(obj) else getattr(obj, part)
    f = obj
    while True:
        if isinstance(f, (staticmethod, classmethod)): f = f.__func__; continue
        if isinstance(f, property): f = f.fget; continue
        if hasattr(f, '__wrapped__'): f = f.__wrapped__; continue
        break
    if not isinstance(f, types.FunctionType):
        raise OutsideSubset(f'{qualname} is not a Python function: {f!r}')
    src = textwrap.dedent(inspect.getsource(f))
    tree = ast.parse(src)
    node = tree.body[0]
    if not isinstance(node, (ast.FunctionDef, ast.AsyncFunctionDef)):
        raise OutsideSubset(f'{qualname}: unexpected source shape')
    return f, node


class Interp:
    def __init__(self, contracts=None, inline=(), on_await=None, loop_bound=2, max_depth=12):
        self.contracts = contracts or {}      # python callable (identity) -> contract callable(interp, *args, **kw)
        self.inline = set(inline)             # function objects always interpreted
        self.on_await = on_await
        self.loop_bound = loop_bound
        self.depth = 0; self.max_depth = max_depth
        self.inlined = set()
        self._src_cache = {}

    # ---- function calls --------------------------------------------------------------------------------------------------
    def source_of(self, f):
        if f not in self._src_cache:
            try:
                src = textwrap.dedent(inspect.getsource(f)); node = ast.parse(src).body[0]
                if not isinstance(node, (ast.FunctionDef, ast.AsyncFunctionDef)): node = None
            except (OSError, TypeError, SyntaxError, IndentationError):
                node = None
            self._src_cache[f] = node
        return self._src_cache[f]

    def call_function(self, f, node, args, kwargs):
        """interpret the body of python function f (its AST `node`) on the given arguments"""
        self.depth += 1
        if self.depth > self.max_depth:
            raise OutsideSubset('call depth')
        try:
            env = {}
            a = node.args
            params = [x.arg for x in a.posonlyargs + a.args]
            defaults = [None] * (len(params) - len(a.defaults)) + list(a.defaults)
            genv = f.__globals__
            for i, p in enumerate(params):
                if i < len(args): env[p] = args[i]
                elif p in kwargs: env[p] = kwargs.pop(p)
                elif defaults[i] is not None: env[p] = self.ev(defaults[i], {}, genv)
                else: raise TypeError(f'missing argument {p}')
            if a.vararg: env[a.vararg.arg] = tuple(args[len(params):])
            for p, d in zip(a.kwonlyargs, a.kw_defaults):
                env[p.arg] = kwargs.pop(p.arg) if p.arg in kwargs else self.ev(d, {}, genv)
            if kwargs:
                if a.kwarg: env[a.kwarg.arg] = kwargs
                else: raise TypeError(f'unexpected keyword {list(kwargs)}')
            # closure cells
            if f.__closure__:
                for name, cell in zip(f.__code__.co_freevars, f.__closure__):
                    env.setdefault(name, cell.cell_contents)
            try:
                self.block(node.body, env, genv)
            except _Return as r:
                return r.v
            return None
        finally:
            self.depth -= 1

    def apply(self, f, args, kwargs):
        c = self.contracts.get(f) if _hashable(f) else None
        if c is None and isinstance(f, types.MethodType):
            c = self.contracts.get(f.__func__)
            if c is not None:
                args = (f.__self__,) + tuple(args)
        if c is not None:
            return c(self, *args, **kwargs)
        target = f; bound = ()
        if isinstance(f, types.MethodType):
            target = f.__func__; bound = (f.__self__,)
        if inspect.iscoroutinefunction(target) and _in_repo(target):
            # calling an `async def` only creates a coroutine; its body runs when awaited (e_Await -> on_await)
            return CoroCall(target, tuple(bound) + tuple(args), dict(kwargs))
        while hasattr(target, '__wrapped__') and target not in self.inline:
            break
        if isinstance(target, types.FunctionType) and (target in self.inline or
                (_in_repo(target) and any(_symbolic(x) for x in list(bound) + list(args) + list(kwargs.values())))):
            node = self.source_of(target)
            if node is not None and not isinstance(node, ast.AsyncFunctionDef):
                self.inlined.add(target.__qualname__)
                return self.call_function(target, node, tuple(bound) + tuple(args), dict(kwargs))
        return f(*args, **kwargs)

    # ---- statements -----------------------------------------------------------------------------------------------------------
    def block(self, stmts, env, g):
        for s in stmts:
            self.stmt(s, env, g)

    def assign(self, t, v, env, g):
        if isinstance(t, ast.Name):
            env[t.id] = v
        elif isinstance(t, (ast.Tuple, ast.List)):
            vs = list(v)
            if len(vs) != len(t.elts): raise ValueError('unpack')
            for tt, vv in zip(t.elts, vs): self.assign(tt, vv, env, g)
        elif isinstance(t, ast.Attribute):
            setattr(self.ev(t.value, env, g), t.attr, v)
        elif isinstance(t, ast.Subscript):
            obj = self.ev(t.value, env, g)
            if isinstance(t.slice, ast.Slice):
                lo = self.ev(t.slice.lower, env, g) if t.slice.lower else None
                hi = self.ev(t.slice.upper, env, g) if t.slice.upper else None
                obj[lo:hi] = v
            else:
                obj[self.ev(t.slice, env, g)] = v
        else:
            raise OutsideSubset(f'assignment target {ast.dump(t)[:60]}')

    def stmt(self, s, env, g):
        if isinstance(s, ast.Return):
            raise _Return(self.ev(s.value, env, g) if s.value is not None else None)
        if isinstance(s, ast.Expr):
            if isinstance(s.value, ast.Constant): return        # docstring
            self.ev(s.value, env, g); return
        if isinstance(s, ast.Assign):
            v = self.ev(s.value, env, g)
            for t in s.targets: self.assign(t, v, env, g)
            return
        if isinstance(s, ast.AnnAssign):
            if s.value is not None: self.assign(s.target, self.ev(s.value, env, g), env, g)
            return
        if isinstance(s, ast.AugAssign):
            cur = self.ev(_load(s.target), env, g)
            v = self.binop(s.op, cur, self.ev(s.value, env, g))
            self.assign(s.target, v, env, g); return
        if isinstance(s, ast.If):
            self.block(s.body if self.truth(self.ev(s.test, env, g)) else s.orelse, env, g); return
        if isinstance(s, ast.While):
            it = 0
            while self.truth(self.ev(s.test, env, g)):
                it += 1
                if self.loop_bound is not None and it > self.loop_bound and not getattr(self, '_concrete_loop', False):
                    P().event('loop-cut', s.lineno); raise LoopCut()
                try:
                    self.block(s.body, env, g)
                except _Break:
                    break
                except _Continue:
                    continue
            else:
                self.block(s.orelse, env, g)
            return
        if isinstance(s, ast.For):
            itv = self.ev(s.iter, env, g)
            broke = False
            for x in itv:
                self.assign(s.target, x, env, g)
                try:
                    self.block(s.body, env, g)
                except _Break:
                    broke = True; break
                except _Continue:
                    continue
            if not broke:
                self.block(s.orelse, env, g)
            return
        if isinstance(s, ast.Raise):
            exc = self.ev(s.exc, env, g) if s.exc is not None else None
            if exc is None: raise OutsideSubset('bare raise')
            if inspect.isclass(exc): exc = exc()
            if s.cause is not None:
                raise exc from self.ev(s.cause, env, g)
            raise exc
        if isinstance(s, ast.Try):
            try:
                self.block(s.body, env, g)
            except (_Return, _Break, _Continue, OutsideSubset, Infeasible, LoopCut):
                if s.finalbody: self.block(s.finalbody, env, g)
                raise
            except Exception as e:
                for h in s.handlers:
                    cls = self.ev(h.type, env, g) if h.type is not None else Exception
                    if isinstance(e, cls):
                        if h.name: env[h.name] = e
                        self.block(h.body, env, g)
                        break
                else:
                    if s.finalbody: self.block(s.finalbody, env, g)
                    raise
            else:
                self.block(s.orelse, env, g)
            if s.finalbody: self.block(s.finalbody, env, g)
            return
        if isinstance(s, ast.Assert):
            if not self.truth(self.ev(s.test, env, g)):
                raise AssertionError(self.ev(s.msg, env, g) if s.msg else '')
            return
        if isinstance(s, ast.Pass): return
        if isinstance(s, ast.Break): raise _Break()
        if isinstance(s, ast.Continue): raise _Continue()
        if isinstance(s, (ast.Import, ast.ImportFrom)):
            ns = {}
            exec(compile(ast.Module([s], []), '<pyvc-import>', 'exec'), g, ns)
            env.update(ns); return
        if isinstance(s, ast.Match):
            return self.match(s, env, g)
        raise OutsideSubset(f'statement {type(s).__name__} at line {getattr(s, "lineno", "?")}')

    # ---- match statements (value, class, sequence, or, capture, wildcard patterns + guards) -------------------------------------
    def match(self, s, env, g):
        subj = self.ev(s.subject, env, g)
        for case in s.cases:
            binds = {}
            if self.pattern(case.pattern, subj, binds, env, g):
                env2 = env; env.update(binds)
                if case.guard is None or self.truth(self.ev(case.guard, env2, g)):
                    self.block(case.body, env, g)
                    return

    def pattern(self, p, v, binds, env, g):
        if isinstance(p, ast.MatchValue):
            return self.truth(self.compare(ast.Eq(), v, self.ev(p.value, env, g)))
        if isinstance(p, ast.MatchSingleton):
            return v is p.value
        if isinstance(p, ast.MatchAs):
            if p.pattern is not None and not self.pattern(p.pattern, v, binds, env, g): return False
            if p.name: binds[p.name] = v
            return True
        if isinstance(p, ast.MatchOr):
            return any(self.pattern(q, v, binds, env, g) for q in p.patterns)
        if isinstance(p, ast.MatchSequence):
            if not isinstance(v, (tuple, list)) or len(v) != len(p.patterns): return False
            return all(self.pattern(q, x, binds, env, g) for q, x in zip(p.patterns, v))
        if isinstance(p, ast.MatchClass):
            cls = self.ev(p.cls, env, g)
            if not isinstance(v, cls): return False
            names = list(getattr(cls, '__match_args__', ()))
            for i, q in enumerate(p.patterns):
                if i >= len(names): raise TypeError('too many positional sub-patterns')
                if not self.pattern(q, getattr(v, names[i]), binds, env, g): return False
            for k, q in zip(p.kwd_attrs, p.kwd_patterns):
                if not hasattr(v, k) or not self.pattern(q, getattr(v, k), binds, env, g): return False
            return True
        raise OutsideSubset(f'pattern {type(p).__name__}')

    # ---- expressions ------------------------------------------------------------------------------------------------------------
    def truth(self, v):
        return bool(v)           # proxies fork in __bool__

    def binop(self, op, l, r):
        if isinstance(l, Acc) and isinstance(op, ast.Add): return l + r
        f = {ast.Add: operator.add, ast.Sub: operator.sub, ast.Mult: operator.mul, ast.FloorDiv: operator.floordiv,
             ast.Mod: operator.mod, ast.BitOr: operator.or_, ast.BitAnd: operator.and_, ast.BitXor: operator.xor,
             ast.LShift: operator.lshift, ast.RShift: operator.rshift, ast.Div: operator.truediv, ast.Pow: operator.pow}.get(type(op))
        if f is None: raise OutsideSubset(f'operator {type(op).__name__}')
        return f(l, r)

    def compare(self, op, l, r):
        if isinstance(op, ast.In): return self.contains(r, l)
        if isinstance(op, ast.NotIn):
            c = self.contains(r, l)
            return ~c if isinstance(c, ZBool) else (not c)
        if isinstance(op, ast.Is): return l is r
        if isinstance(op, ast.IsNot): return l is not r
        f = {ast.Eq: operator.eq, ast.NotEq: operator.ne, ast.Lt: operator.lt, ast.LtE: operator.le, ast.Gt: operator.gt,
             ast.GtE: operator.ge}[type(op)]
        return f(l, r)

    def contains(self, container, x):
        if isinstance(x, ZInt):
            if isinstance(container, (bytes, bytearray, tuple, list, set, frozenset, range)):
                items = list(container)
                if not items: return False
                return ZBool(z3.Or(*[x.t == int(i) for i in items]))
            raise OutsideSubset(f'symbolic membership in {type(container).__name__}')
        if isinstance(x, Sym) and '_member_of' in x._attrs:
            dom = x._attrs['_member_of']
            if '_value' not in x._attrs:
                i = P().choose(len(dom)); x._attrs['_value'] = dom[i]; P().event('assume-member', x._name, dom[i])
            return x._attrs['_value'] in container
        return x in container

    def ev(self, e, env, g):
        if e is None: return None
        m = getattr(self, 'e_' + type(e).__name__, None)
        if m is None: raise OutsideSubset(f'expression {type(e).__name__} at line {getattr(e, "lineno", "?")}')
        return m(e, env, g)

    def e_Constant(self, e, env, g): return e.value

    def e_Name(self, e, env, g):
        if e.id in env: return env[e.id]
        if e.id in g: return g[e.id]
        if hasattr(builtins, e.id): return getattr(builtins, e.id)
        raise NameError(e.id)

    def e_Attribute(self, e, env, g):
        return getattr(self.ev(e.value, env, g), e.attr)

    def e_NamedExpr(self, e, env, g):
        v = self.ev(e.value, env, g); env[e.target.id] = v; return v

    def e_UnaryOp(self, e, env, g):
        v = self.ev(e.operand, env, g)
        if isinstance(e.op, ast.Not):
            if isinstance(v, ZBool): return ~v
            return not self.truth(v)
        if isinstance(e.op, ast.USub): return -v
        if isinstance(e.op, ast.UAdd): return +v
        if isinstance(e.op, ast.Invert): return ~v
        raise OutsideSubset('unary')

    def e_BinOp(self, e, env, g):
        return self.binop(e.op, self.ev(e.left, env, g), self.ev(e.right, env, g))

    def e_BoolOp(self, e, env, g):
        x = None
        for v in e.values:
            x = self.ev(v, env, g)
            t = self.truth(x)
            if isinstance(e.op, ast.Or) and t: return x
            if isinstance(e.op, ast.And) and not t: return x
        return x

    def e_Compare(self, e, env, g):
        l = self.ev(e.left, env, g); res = True
        for op, c in zip(e.ops, e.comparators):
            r = self.ev(c, env, g)
            res = self.compare(op, l, r)
            if len(e.ops) > 1 and not self.truth(res): return False
            l = r
        return res

    def e_IfExp(self, e, env, g):
        return self.ev(e.body if self.truth(self.ev(e.test, env, g)) else e.orelse, env, g)

    def e_Tuple(self, e, env, g): return tuple(self._elts(e.elts, env, g))
    def e_List(self, e, env, g): return list(self._elts(e.elts, env, g))
    def e_Set(self, e, env, g): return set(self._elts(e.elts, env, g))

    def _elts(self, elts, env, g):
        out = []
        for x in elts:
            if isinstance(x, ast.Starred): out.extend(self.ev(x.value, env, g))
            else: out.append(self.ev(x, env, g))
        return out

    def e_Dict(self, e, env, g):
        d = {}
        for k, v in zip(e.keys, e.values):
            if k is None: d.update(self.ev(v, env, g))
            else: d[self.ev(k, env, g)] = self.ev(v, env, g)
        return d

    def e_JoinedStr(self, e, env, g):
        out = ''
        for v in e.values:
            if isinstance(v, ast.Constant): out += v.value
            else:
                x = self.ev(v.value, env, g)
                spec = self.ev(v.format_spec, env, g) if v.format_spec else ''
                if _symbolic(x): out += '{?}'
                else:
                    if v.conversion == ord('r'): x = repr(x)
                    elif v.conversion == ord('s'): x = str(x)
                    out += format(x, spec)
        return out

    def e_FormattedValue(self, e, env, g):
        return format(self.ev(e.value, env, g), '')

    def e_Subscript(self, e, env, g):
        v = self.ev(e.value, env, g)
        if isinstance(e.slice, ast.Slice):
            lo = self.ev(e.slice.lower, env, g); hi = self.ev(e.slice.upper, env, g); st = self.ev(e.slice.step, env, g)
            return v[lo:hi:st]
        return v[self.ev(e.slice, env, g)]

    def e_Lambda(self, e, env, g):
        interp = self
        names = [a.arg for a in e.args.args]
        def lam(*args):
            env2 = dict(env); env2.update(zip(names, args))
            return interp.ev(e.body, env2, g)
        return lam

    def _comp(self, gens, env, g, emit):
        def rec(i, env):
            if i == len(gens): emit(env); return
            gen = gens[i]
            for x in self.ev(gen.iter, env, g):
                env2 = dict(env); self.assign(gen.target, x, env2, g)
                if all(self.truth(self.ev(c, env2, g)) for c in gen.ifs):
                    rec(i + 1, env2)
        rec(0, env)

    def e_ListComp(self, e, env, g):
        out = []; self._comp(e.generators, env, g, lambda env2: out.append(self.ev(e.elt, env2, g))); return out

    def e_GeneratorExp(self, e, env, g):
        return iter(self.e_ListComp(e, env, g))

    def e_SetComp(self, e, env, g):
        return set(self.e_ListComp(e, env, g))

    def e_DictComp(self, e, env, g):
        out = {}
        self._comp(e.generators, env, g, lambda env2: out.__setitem__(self.ev(e.key, env2, g), self.ev(e.value, env2, g)))
        return out

    def e_Call(self, e, env, g):
        f = self.ev(e.func, env, g)
        args = self._elts(e.args, env, g)
        kwargs = {}
        for k in e.keywords:
            if k.arg is None: kwargs.update(self.ev(k.value, env, g))
            else: kwargs[k.arg] = self.ev(k.value, env, g)
        return self.apply(f, args, kwargs)

    def e_Await(self, e, env, g):
        if self.on_await is None: raise OutsideSubset('await without oracle')
        return self.on_await(self, self.ev(e.value, env, g))

    def e_Yield(self, e, env, g):
        # generator functions are linearised: each yielded value is an event of the path; the consumer sends nothing back
        v = self.ev(e.value, env, g) if e.value is not None else None
        P().event('yield', v)
        return None

    def e_Starred(self, e, env, g):
        raise OutsideSubset('starred outside call/display')


def _load(t):
    t2 = ast.parse(ast.unparse(t), mode='eval').body
    return t2


def _hashable(x):
    try:
        hash(x); return True
    except TypeError:
        return False


def _symbolic(x, depth=0):
    if isinstance(x, (ZInt, ZBool, Sym, Acc, ZStr)): return True
    if depth < 2 and isinstance(x, (tuple, list)):
        return any(_symbolic(y, depth + 1) for y in x)
    if depth < 2 and hasattr(x, '__dataclass_fields__') and not inspect.isclass(x):
        try:
            return any(_symbolic(getattr(x, f, None), depth + 1) for f in x.__dataclass_fields__)
        except Exception:
            return False
    return False


def _in_repo(f):
    fn = getattr(getattr(f, '__code__', None), 'co_filename', '')
    import os
    return fn.startswith(os.environ.get('HIDV_REPO', '/repo') + '/')


# ---------------------------------------------------------------------------------------------------------------------
class PathResult:
    def __init__(self, path, outcome, value, interp):
        self.cond = list(path.cond); self.trace = list(path.trace); self.decisions = list(path.decisions)
        self.outcome = outcome      # 'return' | 'raise' | 'cut'
        self.value = value
        self.inlined = set(interp.inlined)

    def __repr__(self):
        return f'<{self.outcome} {self.value!r} if {self.cond} after {len(self.trace)} events>'


def explore(run, assumptions=(), max_paths=20000, interp_factory=Interp):
    """run(interp) executes the function under contract once on the current Path; all paths are enumerated by
    re-execution with decision prefixes.  Returns list[PathResult]."""
    results = []
    todo = [()]
    while todo:
        prefix = todo.pop()
        if len(results) > max_paths:
            raise OutsideSubset('path budget exhausted')
        with Path(prefix, assumptions) as p:
            it = interp_factory()
            try:
                v = run(it)
                res = PathResult(p, 'return', v, it)
            except Infeasible:
                res = None
            except LoopCut:
                res = PathResult(p, 'cut', None, it)
            except OutsideSubset:
                raise
            except _Return as r:
                res = PathResult(p, 'return', r.v, it)
            except Exception as ex:           # a Python exception escaping the function: an outcome, not an error
                res = PathResult(p, 'raise', ex, it)
            if res is not None:
                results.append(res)
            d = p.decisions
            for i in p.forked:
                for alt in range(d[i][0] + 1, d[i][1]):
                    todo.append(tuple(d[:i]) + ((alt, d[i][1]),))
    return results
