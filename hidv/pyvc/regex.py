"""Decision procedure for the regular expressions of the lexer: the *real* compiled pattern's text is parsed with CPython's
own regex parser (re._parser), translated to an NFA over a finite alphabet of character classes, determinised, and compared
with a specification pattern (language equality, with a distinguishing witness otherwise).

Alphabet.  Every atom in the patterns involved is an ASCII literal/range or one of the categories \\d \\s \\w or `.`; so two
characters behave alike in all of them iff they are the same ASCII character, or both non-ASCII with the same
(isdecimal, isspace, isalnum) signature.  One representative per class is used; AXIOM: CPython's categories for str
patterns are str.isdecimal / str.isspace / (str.isalnum or '_'), and `.` is any character but '\\n'.
"""
from __future__ import annotations
import re, itertools

_P = re._parser
_C = re._constants


def representatives():
    reps = {}
    for cp in range(128):
        reps[('ascii', cp)] = chr(cp)
    for cp in itertools.chain(range(128, 0x3000), range(0x3000, 0x110000, 1)):
        if 0xD800 <= cp <= 0xDFFF:
            continue
        ch = chr(cp)
        sig = ('uni', ch.isdecimal(), ch.isspace(), ch.isalnum())
        if sig not in reps:
            reps[sig] = ch
            if len(reps) >= 128 + 8:
                break
    return list(reps.values())


def atom_pred(node):
    op, av = node
    if op is _C.LITERAL: return lambda ch, av=av: ord(ch) == av
    if op is _C.NOT_LITERAL: return lambda ch, av=av: ord(ch) != av
    if op is _C.ANY: return lambda ch: ch != '\n'
    if op is _C.IN:
        items = list(av); neg = False
        if items and items[0][0] is _C.NEGATE:
            neg = True; items = items[1:]
        preds = [atom_pred(it) for it in items]
        return lambda ch, preds=preds, neg=neg: any(p(ch) for p in preds) != neg
    if op is _C.RANGE:
        lo, hi = av
        if hi > 127: raise ValueError('non-ASCII range in a lexer pattern: the class alphabet must be recomputed')
        return lambda ch, lo=lo, hi=hi: lo <= ord(ch) <= hi
    if op is _C.CATEGORY:
        return {_C.CATEGORY_DIGIT: lambda ch: ch.isdecimal(), _C.CATEGORY_NOT_DIGIT: lambda ch: not ch.isdecimal(),
                _C.CATEGORY_SPACE: lambda ch: ch.isspace(), _C.CATEGORY_NOT_SPACE: lambda ch: not ch.isspace(),
                _C.CATEGORY_WORD: lambda ch: ch.isalnum() or ch == '_', _C.CATEGORY_NOT_WORD: lambda ch: not (ch.isalnum() or ch == '_')}[av]
    raise ValueError(f'unsupported atom {op}')


class NFA:
    def __init__(self):
        self.n = 0; self.eps = {}; self.tr = {}
    def new(self):
        self.n += 1; return self.n - 1
    def add_eps(self, a, b): self.eps.setdefault(a, set()).add(b)
    def add_tr(self, a, pred, b): self.tr.setdefault(a, []).append((pred, b))


def build(nfa, seq, start):
    cur = start
    for node in seq:
        op, av = node
        if op in (_C.LITERAL, _C.NOT_LITERAL, _C.ANY, _C.IN):
            nxt = nfa.new(); nfa.add_tr(cur, atom_pred(node), nxt); cur = nxt
        elif op is _C.SUBPATTERN:
            cur = build(nfa, av[3], cur)
        elif op is _C.BRANCH:
            end = nfa.new()
            for alt in av[1]:
                s = nfa.new(); nfa.add_eps(cur, s)
                e = build(nfa, alt, s); nfa.add_eps(e, end)
            cur = end
        elif op in (_C.MAX_REPEAT, _C.MIN_REPEAT):
            lo, hi, sub = av
            for _ in range(lo):
                cur = build(nfa, sub, cur)
            if hi == _C.MAXREPEAT:
                loop = nfa.new(); nfa.add_eps(cur, loop)
                e = build(nfa, sub, loop); nfa.add_eps(e, loop)
                cur = loop
            else:
                end = nfa.new(); nfa.add_eps(cur, end)
                for _ in range(hi - lo):
                    cur = build(nfa, sub, cur); nfa.add_eps(cur, end)
                cur = end
        else:
            raise ValueError(f'unsupported regex construct {op} (anchors, backreferences and look-around are not used by the lexer)')
    return cur


class DFA:
    def __init__(self, pattern, alphabet):
        self.pattern = pattern; self.alphabet = alphabet
        nfa = NFA(); s = nfa.new()
        self.acc_nfa = build(nfa, _P.parse(pattern), s)
        self.nfa = nfa
        self.start = self.closure({s})

    def closure(self, S):
        S = set(S); todo = list(S)
        while todo:
            x = todo.pop()
            for y in self.nfa.eps.get(x, ()):
                if y not in S: S.add(y); todo.append(y)
        return frozenset(S)

    def step(self, S, ch):
        out = set()
        for x in S:
            for pred, y in self.nfa.tr.get(x, ()):
                if pred(ch): out.add(y)
        return self.closure(out)

    def accepts_state(self, S):
        return self.acc_nfa in S

    def longest_prefix(self, text, pos=0):
        S = self.start; best = pos if self.accepts_state(S) else None
        i = pos
        while i < len(text) and S:
            S = self.step(S, text[i]); i += 1
            if self.accepts_state(S): best = i
        return best


def equivalent(p1, p2, alphabet=None):
    """(True, None) or (False, witness string accepted by exactly one)"""
    alphabet = alphabet or representatives()
    A, B = DFA(p1, alphabet), DFA(p2, alphabet)
    seen = {(A.start, B.start): ''}
    todo = [(A.start, B.start)]
    while todo:
        a, b = todo.pop()
        w = seen[(a, b)]
        if A.accepts_state(a) != B.accepts_state(b):
            return False, w
        for ch in alphabet:
            na, nb = A.step(a, ch), B.step(b, ch)
            if not na and not nb: continue
            if (na, nb) not in seen:
                seen[(na, nb)] = w + ch; todo.append((na, nb))
    return True, None
