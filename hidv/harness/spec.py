"""Reference semantics of typed HiD over abstract children, used as the *specification* side of the simulation
lemmas (DESIGN.md 4.4 / section 8, C01).  It is written from the README's language reference, not from generator.py.

The interpreter is *trace directed*: it is run once per leaf the engine computed for the emitted code.  Whenever the
source semantics says "evaluate child X now", the next entry of the leaf's ghost trace must be exactly that child
(otherwise the emitted code evaluates things in a different order, or twice, or not at all -> mismatch); the value the
child returned and the havoc it caused are taken from that entry.  Events the source semantics prescribes (output
bytes, flags, sleeps) must likewise be the next trace entries, with provably equal payloads.  Branches of the source
semantics are decided under the leaf's path condition; when the path condition does not decide one, the leaf is split.
"""
from __future__ import annotations
import dataclasses as dc
import z3
from hidc import ast
from hidc.ast import DataType, ArrayType
from contracts import isa
from hidv import smt


class Mismatch(Exception):
    """the emitted code's leaf is not what the source semantics prescribes"""
    def __init__(self, why, **info):
        super().__init__(why); self.why = why; self.info = info


class Split(Exception):
    def __init__(self, cond):
        self.c = cond


class Undecided(Exception):
    pass


# outcomes of the reference semantics
@dc.dataclass
class Out:
    kind: str            # 'normal' | 'fault' | 'defeat' | 'return' | 'break' | 'continue' | 'child-abnormal'
    value: object = None
    what: object = None  # fault kind / abnormal kind


class Abrupt(Exception):
    def __init__(self, out):
        self.out = out


class SpecRun:
    def __init__(self, lemma, leaf, cond):
        self.L = lemma
        self.ctx = lemma.ctx
        self.leaf = leaf
        self.cond = list(cond)
        self.trace = list(leaf.st.trace)
        self.pos = 0
        self.mem = lemma.entry.mem          # spec memory: entry memory + the stores the source semantics prescribes
        self.entry = lemma.entry
        self.unchecked = lemma.unchecked
        self.ub = False                      # undefined behaviour reached (unchecked build past a fault)
        self.notes = []

    # ---- solver helpers -----------------------------------------------------------------------------------------
    def implied(self, c):
        o = smt.prove(self.ctx.all_pre() + self.cond, c)
        if o.verdict == smt.UNKNOWN:
            raise Undecided(o.reason)
        return o.verdict == smt.PROVED

    def decide(self, c):
        c = z3.simplify(c)
        if z3.is_true(c): return True
        if z3.is_false(c): return False
        if self.implied(c): return True
        if self.implied(z3.Not(c)): return False
        raise Split(c)

    def require_eq(self, a, b, what):
        o = smt.prove(self.ctx.all_pre() + self.cond, a == b)
        if o.verdict == smt.UNKNOWN:
            raise Undecided(o.reason)
        if o.verdict == smt.CEX:
            raise Mismatch(f'{what}: emitted code computes a different value', model=o.model, code=a, spec=b)

    # ---- trace consumption ----------------------------------------------------------------------------------------
    def next(self, what):
        if self.pos >= len(self.trace):
            raise Mismatch(f'source semantics performs {what} but the emitted code did nothing further on this path')
        e = self.trace[self.pos]; self.pos += 1
        return e

    def event(self, kind, payload=None):
        e = self.next(f'{kind} event')
        if e[0] != kind:
            raise Mismatch(f'source semantics performs {kind} here, emitted code did {e[0]}')
        if kind == 'flag':
            if e[1] != payload:
                raise Mismatch(f'flag {payload} expected, emitted code raises {e[1]}')
        elif payload is not None:
            self.require_eq(e[1], payload, f'{kind} payload')

    def child(self, node):
        e = self.next(f'evaluation of {node!r}')
        if e[0] != 'child' or e[1].node is not node:
            got = e[1].node if e[0] == 'child' else e[0]
            raise Mismatch(f'source semantics evaluates {node!r} here, emitted code did {got!r} (order of evaluation)')
        ev = e[2]
        # the child reads the observable memory: it must be what the source semantics says it is at this point
        self.sync(ev.pre, ev.info.stack, f'at invocation of {node!r}')
        self.mem = ev.havoc(self.mem)
        if ev.abnormal is not None:
            raise Abrupt(Out('child-abnormal', what=ev.abnormal))
        return ev.value

    def sync(self, code_state, stack, where):
        """observable memory of the emitted code == memory of the source semantics (everything except the scratch area
        between the top of the array stack and the lemma's entry frame)"""
        c = self.ctx
        a = z3.BitVec('a!sync', c.BITS)
        lo = code_state.regs['ap']; hi = self.entry.regs['fp'] - self.L.entry_offset_bv
        scratch = z3.And(z3.ULE(lo, a), z3.ULT(a, hi))
        o = smt.prove(c.all_pre() + self.cond + [z3.Not(scratch)], z3.Select(code_state.mem, a) == z3.Select(self.mem, a))
        if o.verdict == smt.UNKNOWN:
            raise Undecided(o.reason)
        if o.verdict == smt.CEX:
            raise Mismatch(f'observable memory differs from the source semantics {where}', model=o.model)

    def store(self, addr, n, v):
        c = self.ctx
        for i in range(n):
            self.mem = z3.Store(self.mem, addr + c.bv(i), z3.Extract(8 * i + 7, 8 * i, v))

    def load(self, mem, addr, n):
        c = self.ctx
        bs = [z3.Select(mem, addr + c.bv(i)) for i in range(n)]
        v = z3.Concat(*reversed(bs)) if n > 1 else bs[0]
        return z3.ZeroExt(c.BITS - 8 * n, v) if n < c.W else v

    def fault(self, kind):
        if self.unchecked:
            # C15: the unchecked build is specified on fault-free runs only
            self.ub = True
            raise Abrupt(Out('ub', what=kind))
        self.event('flag', kind)
        self.event('flag', 'error')
        raise Abrupt(Out('fault', what=kind))

    # ---- expressions ------------------------------------------------------------------------------------------------
    def arith(self, op, a, b):
        c = self.ctx
        if op in ('div', 'mod', 'mul') and op not in c.interpret and not (z3.is_bv_value(a) or z3.is_bv_value(b)) or \
                (op in ('div', 'mod') and op not in c.interpret):
            return isa.uf(op, c.BITS)(a, b)
        return isa.ARITH[op](a, b)

    def eval(self, e):
        c = self.ctx; bv = c.bv
        from .vcg import AExpr
        if isinstance(e, AExpr):
            return self.child(e)
        if isinstance(e, ast.IntValue):            # includes ByteValue
            return self.L.const_value(e.data)
        if isinstance(e, ast.BoolValue):
            return bv(1 if e.data else 0)
        if isinstance(e, ast.StringValue):
            return self.L.string_value(e.data)
        if isinstance(e, (ast.BoolToByte, ast.ByteToInt)):
            return self.eval(e.expr)
        if isinstance(e, ast.IntToByte):
            return self.eval(e.expr) & bv(0xFF)
        if isinstance(e, ast.IntToBool):
            v = self.eval(e.expr)
            return z3.If(v != bv(0), bv(1), bv(0))
        if isinstance(e, ast.BinaryArithmeticOp):
            l = self.eval(e.left); r = self.eval(e.right)
            op = {ast.Add: 'add', ast.Sub: 'sub', ast.Mul: 'mul', ast.Div: 'div', ast.Mod: 'mod'}[type(e)]
            if op in ('div', 'mod'):
                if self.decide(r == bv(0)):
                    self.fault('division_by_zero')
            return self.arith(op, l, r)
        if isinstance(e, ast.Pos):
            return self.eval(e.arg)
        if isinstance(e, ast.Neg):
            return -self.eval(e.arg)
        if isinstance(e, ast.Not):
            v = self.eval(e.arg)
            return z3.If(v != bv(0), bv(0), bv(1))
        if isinstance(e, ast.And):
            l = self.eval(e.left)
            if not self.decide(l != bv(0)):
                return bv(0)
            r = self.eval(e.right)
            return z3.If(r != bv(0), bv(1), bv(0))
        if isinstance(e, ast.Or):
            l = self.eval(e.left)
            if self.decide(l != bv(0)):
                return bv(1)
            r = self.eval(e.right)
            return z3.If(r != bv(0), bv(1), bv(0))
        if isinstance(e, (ast.CompareOp, ast.EqualityOp)):
            l = self.eval(e.left); r = self.eval(e.right)
            rel = {ast.Eq: lambda a, b: a == b, ast.Ne: lambda a, b: a != b, ast.Lt: lambda a, b: a < b,
                   ast.Le: lambda a, b: a <= b, ast.Gt: lambda a, b: a > b, ast.Ge: lambda a, b: a >= b}[type(e)]
            return z3.If(rel(l, r), bv(1), bv(0))       # signed comparison
        if isinstance(e, ast.VariableLookup):
            return self.L.read_var(self, e.var)
        raise NotImplementedError(f'spec: expression {type(e).__name__}')
