"""Reference semantics of typed HiD over abstract children, used as the *specification* side of the simulation
lemmas (DESIGN.md 4.4 / section 8, C01).  It is written from the README's language reference, not from generator.py.

The interpreter is *trace directed*: it is run once per leaf the engine computed for the emitted code.  Whenever the
source semantics says "evaluate child X now", the next entry of the leaf's ghost trace must be exactly that child
(otherwise the emitted code evaluates things in a different order, or twice, or not at all -> mismatch); the value the
child returned and the havoc it caused are taken from that entry.  Events the source semantics prescribes (output
bytes, flags, sleeps) must likewise be the next trace entries, with provably equal payloads.  Branches of the source
semantics are decided under the leaf's path condition; when the path condition does not decide one, the leaf is split.

Values are machine words as integers in [0, M) (contracts/isa.py); bool = 0/1, byte = 0..255.
"""
from __future__ import annotations
import dataclasses as dc
import z3
from hidc import ast
from hidc.ast import DataType, ArrayType
from contracts import isa
from hidv import smt


class Mismatch(Exception):
    """the emitted code's leaf is not what the source semantics prescribes"""
    def __init__(self, why, **info):
        super().__init__(why); self.why = why; self.info = info


class Split(Exception):
    def __init__(self, cond):
        self.c = cond


class Undecided(Exception):
    pass


# outcomes of the reference semantics
@dc.dataclass
class Out:
    kind: str            # 'normal' | 'fault' | 'defeat' | 'return' | 'break' | 'continue' | 'child-abnormal' | 'ub'
    value: object = None
    what: object = None  # fault kind / abnormal kind


class Abrupt(Exception):
    def __init__(self, out):
        self.out = out


@dc.dataclass
class ArrayVal:
    """an array reference value: where it lives and how long it is"""
    el_type: object
    section: str         # 'state' | 'const'
    origin: object       # address term
    length: object       # word term
    writable: bool = True


class SpecRun:
    def __init__(self, lemma, leaf, cond):
        self.L = lemma
        self.ctx = lemma.ctx
        self.leaf = leaf
        self.cond = list(cond)
        self.trace = list(leaf.st.trace)
        self.pos = 0
        self.mem = lemma.entry.mem          # spec memory: entry memory + the stores the source semantics prescribes
        self.entry = lemma.entry
        self.unchecked = lemma.unchecked
        self.stores = []                     # stores the source semantics prescribed so far: (addr, nbytes, value)
        self.newvars = {}                    # variables declared by the construct under test: name -> value
        self.alloc = z3.IntVal(0)            # bytes of stack arrays the construct has allocated so far (README "Arrays": a new array lives until its scope ends)
        self.fresh_arrays = []               # (ArrayVal, nbytes, content known?) in allocation order
        self.M = lemma.M
        self.W = lemma.w

    # ---- solver helpers -----------------------------------------------------------------------------------------
    def pre(self):
        return self.ctx.all_pre() + self.cond

    def implied(self, c):
        o = smt.prove(self.pre(), c)
        if o.verdict == smt.UNKNOWN:
            raise Undecided(o.reason)
        return o.verdict == smt.PROVED

    def decide(self, c):
        c = z3.simplify(c)
        if z3.is_true(c): return True
        if z3.is_false(c): return False
        if self.implied(c): return True
        if self.implied(z3.Not(c)): return False
        raise Split(c)

    def require(self, f, what):
        o = smt.prove(self.pre(), f)
        if o.verdict == smt.UNKNOWN:
            raise Undecided(o.reason)
        if o.verdict == smt.CEX:
            raise Mismatch(what, model=o.model)

    def require_eq(self, a, b, what):
        o = smt.prove(self.pre(), a == b)
        if o.verdict == smt.UNKNOWN:
            raise Undecided(o.reason)
        if o.verdict == smt.CEX:
            raise Mismatch(f'{what}: emitted code computes a different value', model=o.model, code=a, spec=b)

    # ---- trace consumption ----------------------------------------------------------------------------------------
    def next(self, what):
        if self.pos >= len(self.trace):
            raise Mismatch(f'source semantics performs {what} but the emitted code did nothing further on this path')
        e = self.trace[self.pos]; self.pos += 1
        return e

    def event(self, kind, payload=None):
        e = self.next(f'{kind} event')
        if e[0] != kind:
            raise Mismatch(f'source semantics performs {kind} here, emitted code did {e[0]}')
        if kind == 'flag':
            if e[1] != payload:
                raise Mismatch(f'flag {payload} expected, emitted code raises {e[1]}')
        elif payload is not None:
            self.require_eq(e[1], payload, f'{kind} payload')

    def child(self, node):
        e = self.next(f'evaluation of {node!r}')
        if e[0] != 'child' or e[1].node is not node:
            got = e[1].node if e[0] == 'child' else e[0]
            raise Mismatch(f'source semantics evaluates {node!r} here, emitted code did {got!r} (order of evaluation)')
        ev = e[2]
        # the child reads the observable memory: it must be what the source semantics says it is at this point
        self.sync(ev.pre, f'at invocation of {node!r}')
        self.mem = ev.havoc(self.mem)
        if ev.abnormal is not None:
            raise Abrupt(Out('child-abnormal', what=ev.abnormal))
        return ev.value

    def sync(self, code_state, where):
        """observable memory of the emitted code == memory of the source semantics, by store accounting: every store
        the emitted code executed so far either lies in the scratch area (between the current top of the array stack
        and the lemma's entry frame: temporaries, pushed values) or is, in order, a store the source semantics
        prescribes (same address, same width, same value); and every prescribed store has been executed."""
        lo = code_state.regs['ap']; hi = self.entry.regs['fp'] - self.L.entry_offset
        pre = self.pre()
        spec = list(self.stores)
        k = 0
        for (a, n, v, text) in code_state.stores:
            scratch = z3.And(lo <= a, a + n <= hi)
            o = smt.prove(pre, scratch)
            if o.verdict == smt.UNKNOWN:
                raise Undecided(o.reason)
            if o.verdict == smt.PROVED:
                continue
            if code_state.extents:
                # stores into an array the construct itself is building (allocated by it, no reference exists yet) are
                # private; the finished array is compared element by element at exit
                priv = z3.Or(*[z3.And(lo_ <= a, a + n <= hi_) for lo_, hi_ in code_state.extents])
                if smt.prove(pre, priv).verdict == smt.PROVED:
                    continue
            if k < len(spec) and spec[k][1] == n:
                sa, sn, sv = spec[k]
                m = 1 << (8 * n)
                o2 = smt.prove(pre, z3.And(a == sa, v % m == sv % m))
                if o2.verdict == smt.UNKNOWN:
                    raise Undecided(o2.reason)
                if o2.verdict == smt.PROVED:
                    k += 1; continue
                raise Mismatch(f'store `{text}` {where}: neither a scratch store nor the store the source semantics prescribes here '
                               f'(address or value differs)', model=o2.model)
            raise Mismatch(f'store `{text}` {where}: the emitted code writes outside its scratch area where the source semantics '
                           f'prescribes no store', model=o.model)
        if k != len(spec):
            raise Mismatch(f'{where}: the source semantics has stored {len(spec)} value(s) by now, the emitted code {k}')

    def store(self, addr, n, v, private=False):
        if not private:
            self.stores.append((addr, n, v))
        from hidv.sphinx import sem
        self.mem = sem.as_mem(self.mem).store(addr, n, v)

    def load(self, mem, addr, n):
        from hidv.sphinx import sem
        pre = self.pre()
        return sem.load_word(self.ctx, mem, addr, n, lambda f: smt.prove(pre, f, timeout_ms=3000).verdict == smt.PROVED)

    def fault(self, kind):
        if self.unchecked:
            # C15: the unchecked build is specified on fault-free runs only
            raise Abrupt(Out('ub', what=kind))
        self.event('flag', kind)
        self.event('flag', 'error')
        raise Abrupt(Out('fault', what=kind))

    # ---- expressions ------------------------------------------------------------------------------------------------
    def arith(self, op, a, b):
        return isa.arith(op, a, b, self.W, self.ctx.interpret)

    def truth(self, v):
        return v != 0

    def b2w(self, c):
        return z3.If(c, z3.IntVal(1), z3.IntVal(0))

    def eval(self, e):
        from .vcg import AExpr
        M = self.M
        if isinstance(e, AExpr):
            return self.child(e)
        if isinstance(e, ast.IntValue):            # includes ByteValue
            return self.L.const_value(e.data)
        if isinstance(e, ast.BoolValue):
            return z3.IntVal(1 if e.data else 0)
        if isinstance(e, ast.StringValue):
            return self.L.string_value(e.data)
        if isinstance(e, (ast.BoolToByte, ast.ByteToInt)):
            return self.eval(e.expr)
        if isinstance(e, ast.IntToByte):
            return self.eval(e.expr) % 256
        if isinstance(e, ast.IntToBool):
            return self.b2w(self.eval(e.expr) != 0)
        if isinstance(e, ast.BinaryArithmeticOp):
            l = self.eval(e.left); r = self.eval(e.right)
            op = {ast.Add: 'add', ast.Sub: 'sub', ast.Mul: 'mul', ast.Div: 'div', ast.Mod: 'mod'}[type(e)]
            if op in ('div', 'mod'):
                if self.decide(r == 0):
                    self.fault('division_by_zero')
            return self.arith(op, l, r)
        if isinstance(e, ast.Pos):
            return self.eval(e.arg)
        if isinstance(e, ast.Neg):
            return (-self.eval(e.arg)) % M
        if isinstance(e, ast.Not):
            return self.b2w(self.eval(e.arg) == 0)
        if isinstance(e, ast.And):
            l = self.eval(e.left)
            if not self.decide(l != 0):
                return z3.IntVal(0)
            return self.b2w(self.eval(e.right) != 0)
        if isinstance(e, ast.Or):
            l = self.eval(e.left)
            if self.decide(l != 0):
                return z3.IntVal(1)
            return self.b2w(self.eval(e.right) != 0)
        if isinstance(e, (ast.CompareOp, ast.EqualityOp)):
            l = isa.sx(self.eval(e.left), M); r = isa.sx(self.eval(e.right), M)      # signed comparison
            rel = {ast.Eq: l == r, ast.Ne: l != r, ast.Lt: l < r, ast.Le: l <= r, ast.Gt: l > r, ast.Ge: l >= r}[type(e)]
            return self.b2w(rel)
        if isinstance(e, ast.VariableLookup):
            if e.var.name in self.newvars:
                return self.newvars[e.var.name]
            return self.L.read_var(self, e.var)
        if isinstance(e, ast.Speculation):
            return self.speculation(e)
        if isinstance(e, ast.FuncCall):
            return self.call(e)
        if isinstance(e, ast.LengthLookup):
            return self.length_of(e.source)
        if isinstance(e, ast.ArrayLookup):
            return self.array_lookup(e)
        raise NotImplementedError(f'spec: expression {type(e).__name__}')

    # ---- statements and blocks (README "Blocks and functions") -----------------------------------------------------------
    def exec_stmt(self, s):
        from .vcg import ABlock
        if isinstance(s, ast.Block):
            return self.exec_block(s)
        if isinstance(s, ast.Expression):
            self.eval(s); return
        if isinstance(s, ast.Declaration):
            self.newvars[s.var.name] = self.eval_init(s.init); return
        if isinstance(s, ast.Assignment):
            if isinstance(s.lookup, ast.VariableLookup):
                if isinstance(s, ast.IncAssignment):
                    # x op= e  ==  x = x op e  (README "Augmented assignments"): the variable is read, then e is evaluated, then the operator
                    # (written out here, not taken from the compiler's own type_equiv_assignment helper)
                    old = self.eval(s.lookup)
                    r = self.eval(s.expr)
                    op = {ast.Add: 'add', ast.Sub: 'sub', ast.Mul: 'mul', ast.Div: 'div', ast.Mod: 'mod'}[s.bin_op]
                    if op in ('div', 'mod') and self.decide(r == 0):
                        self.fault('division_by_zero')
                    v = self.arith(op, old, r)
                else:
                    v = self.eval(s.expr)
                name = s.lookup.var.name
                if name in self.newvars:
                    self.newvars[name] = v
                else:
                    a, size = self.L.var_address(s.lookup.var)
                    self.store(a, size, v)
                return
            return self.array_assign(s)
        if isinstance(s, ast.ReturnStatement):
            v = self.eval(s.value) if s.value is not None else None
            raise Abrupt(Out('return', value=v))
        if isinstance(s, ast.BreakStatement):
            raise Abrupt(Out('break'))
        if isinstance(s, ast.ContinueStatement):
            raise Abrupt(Out('continue'))
        raise NotImplementedError(f'spec: statement {type(s).__name__}')

    def eval_init(self, e):
        from hidc.ast import ArrayType
        if isinstance(e.type, ArrayType):
            return self.array_of(e)
        return self.eval(e)

    def block_child(self, node):
        e = self.next(f'execution of {node!r}')
        if e[0] != 'child' or e[1].node is not node:
            got = e[1].node if e[0] == 'child' else e[0]
            raise Mismatch(f'source semantics executes {node!r} here, emitted code did {got!r}')
        ev = e[2]
        self.sync(ev.pre, f'at entry of {node!r}')
        self.mem = ev.havoc(self.mem)
        if ev.abnormal is not None:
            kind = {'return': 'child-return', 'break': 'break', 'continue': 'continue', 'defeat': 'defeat', 'term': 'child-term'}[ev.abnormal]
            raise Abrupt(Out(kind, what=ev.abnormal))

    def exec_block(self, b):
        from .vcg import ABlock
        if isinstance(b, ABlock):
            return self.block_child(b)
        if isinstance(b, ast.CodeBlock):
            saved = self.alloc
            for s in b.stmts:
                self.exec_stmt(s)
            self.alloc = saved              # the scope ends: arrays created in it are released (README "Arrays")
            return
        if isinstance(b, ast.IfBlock):
            c = self.eval(b.cond)
            if self.decide(c != 0):
                return self.exec_block(b.body)
            return self.exec_block(b.else_block)
        if isinstance(b, ast.LoopBlock):
            # one trip from the loop head (the back edge is a cut point: Out('loop-back'))
            c = self.eval(b.cond)
            if not self.decide(c != 0):
                return
            try:
                self.exec_block(b.body)
            except Abrupt as a:
                if a.out.kind == 'break':
                    return
                if a.out.kind != 'continue':
                    raise
            self.exec_block(b.cont)
            raise Abrupt(Out('loop-back'))
        if isinstance(b, ast.TryBlock):
            return self.try_block(b)
        if isinstance(b, ast.PreemptBlock):
            return self.preempt_block(b)
        raise NotImplementedError(f'spec: block {type(b).__name__}')

    # ---- calls (README "Standard library"; call protocol) -----------------------------------------------------------------------
    def call(self, e):
        from hidc.lexer.tokens import Ident
        name = e.func
        types = tuple(a.type for a in e.args)
        # inlined built-ins
        if name == Ident('write') and types == (DataType.BYTE,):
            v = self.eval(e.args[0]); self.event('out', v % 256); return None
        if name == Ident('writeln'):
            if e.args:
                self.call(ast.FuncCall(Ident('write'), e.args, e.span, DataType.EMPTY))
            self.event('out', z3.IntVal(10)); return None
        if name == Ident.defeat('is_defeat'):
            raise Abrupt(Out('defeat'))
        if name == Ident.defeat('truth_is_defeat'):
            v = self.eval(e.args[0])
            if self.decide(v != 0):
                raise Abrupt(Out('defeat'))
            return None
        if name == Ident('sleep'):
            v = self.eval(e.args[0]); self.event('sleep', v); return None
        if name == Ident('debug'):
            self.event('flag', 'debug'); return None
        if name == Ident('progress'):
            self.event('flag', 'progress'); return None
        if name in (Ident('all_is_win'), Ident('all_is_broken')):
            for f in isa.TERMINAL[name.base_name]:
                self.event('flag', f)
            raise Abrupt(Out('terminal', what=name.base_name))
        # call protocol: arguments left to right, then the callee
        vals = []
        for a in e.args:
            if isinstance(a.type, ArrayType):
                arr = self.array_of(a)
                vals.append(('array', arr))
            else:
                vals.append(('scalar', self.eval(a), a.type))
        en = self.next(f'call of {name}')
        if en[0] != 'call':
            raise Mismatch(f'source semantics calls {name} here, emitted code did {en[0]}')
        ev = en[2]
        want = self.L.expected_label(e, vals)
        if en[1] != want:
            raise Mismatch(f'call goes to {en[1]}, the overload the typechecker bound is {want}')
        flat = []
        for v in vals:
            if v[0] == 'array':
                flat += [(v[1].length, self.W), (v[1].origin, self.W)]       # reference: (length, origin)
            else:
                flat.append((v[1], 1 if v[2].byte_sized else self.W))
        if len(flat) != len(ev.args):
            raise Mismatch(f'callee expects {len(ev.args)} argument slots, source passes {len(flat)}')
        for (sv, size), cv in zip(flat, ev.args):
            self.require_eq(cv, sv % (1 << (8 * size)), f'argument slot of {name}')
        self.sync(ev.pre, f'at the call of {name}')
        self.mem = ev.havoc(self.mem)
        if ev.abnormal is not None:
            kind = {'term': 'child-term', 'defeat': 'defeat'}[ev.abnormal]
            raise Abrupt(Out(kind, what=ev.abnormal))
        return ev.ret

    # ---- arrays and strings (README "Types") ---------------------------------------------------------------------------------
    def cload(self, addr, n):
        return self.load(self.ctx.cmem, addr, n)

    def array_of(self, e):
        """value of an array-typed expression: where it lives and how long it is"""
        if isinstance(e, ast.Volatile):
            # a mutable array viewed as const: same storage, read-only view
            return dc.replace(self.array_of(e.expr), writable=False)
        if isinstance(e, ast.VariableLookup):
            if e.var.name in self.newvars:
                return self.newvars[e.var.name]
            return self.L.array_value(self, e.var)
        if isinstance(e, ast.StringToByteArray):
            p = self.eval(e.expr)
            return ArrayVal(DataType.BYTE, 'const', p + self.W, self.cload(p, self.W), writable=False)
        if isinstance(e, ast.ArrayLiteral):
            return self.array_literal(e)
        if isinstance(e, ast.ArrayInitializer):
            return self.array_initializer(e)
        raise NotImplementedError(f'spec: array expression {type(e).__name__}')

    def length_of(self, src):
        if src.type == DataType.STRING:
            p = self.eval(src)
            return self.cload(p, self.W)
        return self.array_of(src).length

    def bounds(self, i, length):
        si = isa.sx(i, self.M)
        if not self.decide(z3.And(si >= 0, si < isa.sx(length, self.M))):
            self.fault('out_of_bounds')

    def element(self, arr, i, mem=None):
        """(address, nbytes, value) of element i; for bool arrays the containing byte and the bit number"""
        mem = self.ctx.cmem if arr.section == 'const' else (self.mem if mem is None else mem)
        if arr.el_type == DataType.BOOL:
            a = arr.origin + i / 8
            byte = self.load(mem, a, 1)
            k = i % 8
            bit = z3.IntVal(0)
            for j in range(7, -1, -1):
                bit = z3.If(k == j, (byte / (1 << j)) % 2, bit)
            return a, 1, bit, byte, k
        n = 1 if arr.el_type.byte_sized else self.W
        a = arr.origin + i * n
        return a, n, self.load(mem, a, n), None, None

    def array_lookup(self, e):
        if e.source.type == DataType.STRING:
            p = self.eval(e.source)
            i = self.eval(e.index)
            self.bounds(i, self.cload(p, self.W))
            return self.cload(p + self.W + i, 1)
        arr = self.array_of(e.source)
        i = self.eval(e.index)
        self.bounds(i, arr.length)
        return self.element(arr, i)[2]

    def array_assign(self, s):
        """a[i] = e  /  a[i] op= e : array, index, bounds check, (old element), right-hand side, (operator), store"""
        lk = s.lookup
        arr = self.array_of(lk.source)
        i = self.eval(lk.index)
        self.bounds(i, arr.length)
        if isinstance(s, ast.IncAssignment):
            old = self.element(arr, i)[2]
            r = self.eval(s.expr)
            op = {ast.Add: 'add', ast.Sub: 'sub', ast.Mul: 'mul', ast.Div: 'div', ast.Mod: 'mod'}[s.bin_op]
            if op in ('div', 'mod') and self.decide(r == 0):
                self.fault('division_by_zero')
            v = self.arith(op, old, r)
        else:
            v = self.eval(s.expr)
        a, n, _, byte, k = self.element(arr, i)          # the element as it is *after* the right-hand side ran
        if arr.el_type == DataType.BOOL:
            new = z3.IntVal(0)
            for j in range(7, -1, -1):
                new = z3.If(k == j, byte - ((byte / (1 << j)) % 2) * (1 << j) + (v % 2) * (1 << j), new)
            self.store(a, 1, new)
        else:
            self.store(a, n, v)

    def array_initializer(self, e):
        """`T a[n]`: n evaluated once; a new uninitialised array of n elements on top of the array stack.  Lack of space (or a negative /
        unrepresentable length) is the stack_overflow fault: *when* exactly it is raised is the GUARD-EXACT contract of the allocation
        (contracts/lem_guard.py); here the fault is admitted at this point and nowhere else."""
        n = self.eval(e.length)
        el = e.type.el_type
        l = self.leaf
        if not self.unchecked and l.kind == 'term' and l.tgt == 'stack_overflow' and self.pos + 2 == len(self.trace):
            self.fault('stack_overflow')
        base = self.L.alloc_base(self) + self.alloc
        nbytes = self.L.array_bytes(el, isa.sx(n, self.M))
        arr = ArrayVal(el, 'state', base, n)
        self.alloc = self.alloc + nbytes
        self.fresh_arrays.append((arr, nbytes, False))
        return arr

    def array_literal(self, e):
        """elements are evaluated left to right; the new array lives where the array stack ended"""
        n = len(e.values)
        el = e.type.el_type
        base = self.L.alloc_base(self) + self.alloc
        vals = [self.eval(x) for x in e.values]
        if el == DataType.BOOL:
            for j in range((n + 7) // 8):
                byte = sum((vals[8 * j + t] % 2) * (1 << t) for t in range(8) if 8 * j + t < n)
                self.store(base + j, 1, byte, private=True)
            nbytes = (n + 7) // 8
        else:
            size = 1 if el.byte_sized else self.W
            for j, v in enumerate(vals):
                self.store(base + j * size, size, v, private=True)
            nbytes = n * size
        arr = ArrayVal(el, 'state', base, z3.IntVal(n))
        self.alloc = self.alloc + nbytes
        self.fresh_arrays.append((arr, z3.IntVal(nbytes), True))
        return arr
