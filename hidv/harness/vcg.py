"""The harness: the *real* CodeGen methods run on abstract children (DESIGN.md section 5).

VCodeGen subclasses the real hidc.codegen.generator.CodeGen and overrides only eval_expr / gen_block, and only for the
abstract node classes defined here; every other node goes to super().  What is not real: these two dispatch overrides on
abstract nodes, and the SymInt operator table.
"""
from __future__ import annotations
import dataclasses as dc, sys, os

REPO = os.environ.get('HIDV_REPO', '/repo')
if REPO not in sys.path:
    sys.path.insert(0, REPO)

from hidc import ast                                    # noqa: E402
from hidc.ast import DataType, ArrayType, ExitMode      # noqa: E402
from hidc.codegen import asm, generator, stdlib         # noqa: E402
from hidc.codegen.generator import CodeGen, StackPoint  # noqa: E402
from hidc.lexer import SourceCode                       # noqa: E402
from hidc.parser import parse                           # noqa: E402
from .symint import SymInt, Session                     # noqa: E402
from hidc.lexer import Span, Cursor                     # noqa: E402

SPAN = Span(Cursor(0, 0), Cursor(0, 1))     # abstract nodes carry a real span: Metadata comments and error paths format it


class AExpr(ast.Expression):
    """opaque scalar expression child: contract of eval_expr (DESIGN Appendix B), shape REG or REGBYTE"""
    def __init__(self, name, type, shape='REG'):
        self.name = name; self._type = type; self.shape = shape
    type = property(lambda s: s._type)
    span = SPAN
    def evaluate(self, env): return self
    def __repr__(self): return f'<AExpr {self.name}:{self._type}>'
    def __eq__(self, o): return self is o
    def __hash__(self): return id(self)


class ABlock(ast.Block):
    """opaque block child: contract of gen_block (DESIGN Appendix B)"""
    def __init__(self, name, modes=ExitMode.NONE, preemptive=False, may_continue=False):
        self.name = name; self._modes = modes; self._pre = preemptive; self.may_continue = may_continue
    span = SPAN
    preemptive = property(lambda s: s._pre)
    def exit_modes(self): return self._modes
    def evaluate(self, env): return self
    def __repr__(self): return f'<ABlock {self.name}:{self._modes}>'
    def __eq__(self, o): return self is o
    def __hash__(self): return id(self)


@dc.dataclass
class Opaque(asm.Instruction):
    code = b'opaque'
    ident: int
    def lines(self):
        yield b'opaque %d' % self.ident


@dc.dataclass
class ChildInfo:
    ident: int
    kind: str            # 'expr' | 'block'
    node: object
    r_out: str | None
    keep: bool
    stack: StackPoint    # compile-time stack at the moment the child is invoked
    effective_defeat: object
    n_arrays: int = 0
    loop: tuple | None = None     # innermost loop: (break label, continue label, ap at its restore point | None, loop_defeat value | None)
    local_vars: dict | None = None   # variables in scope when the child is generated (block children)


class VCodeGen(CodeGen):
    def _register(self, **kw):
        info = ChildInfo(ident=len(self.v_children), **kw)
        self.v_children.append(info)
        return info

    def eval_expr(self, r_out, expr, keep):
        if isinstance(expr, AExpr):
            info = self._register(kind='expr', node=expr, r_out=r_out.label_name, keep=keep, stack=self.stack,
                                  effective_defeat=self.effective_defeat, n_arrays=len(self.allocated_arrays))
            yield Opaque(info.ident)
            # contract of eval_expr: the value is in the r_out register (REG) or its low byte (REGBYTE); pushed if keep
            result = asm.State(r_out) if expr.shape == 'REG' else asm.StateByte(r_out)
            if not keep:
                return self.vacpack(result)
            if expr.shape != 'REG':
                result = yield from result.get(r_out)
            return (yield from self.push_value(expr.type, result))
        return (yield from super().eval_expr(r_out, expr, keep))

    def gen_block(self, block):
        if isinstance(block, ABlock):
            li = self.loop_info[-1] if self.loop_info else None
            info = self._register(kind='block', node=block, r_out=None, keep=False, stack=self.stack,
                                  effective_defeat=self.effective_defeat, n_arrays=len(self.allocated_arrays),
                                  loop=(li.break_label.label_name, li.continue_label.label_name,
                                        getattr(self, 'v_loop_ap', None), getattr(self, 'v_loop_defeat', None), li.loop_defeat, li.restore_point) if li else None,
                                  local_vars=dict(self.local_vars))
            yield Opaque(info.ident)
            return
        yield from super().gen_block(block)


_ENV_CACHE = {}


def make_env(src='empty @is_you() {}'):
    env = ast.Environment.empty()
    parse(SourceCode.from_string(src)).evaluate(env)
    return env


def make_codegen(word_size=2, unchecked=False, src='empty @is_you() {}', stack_size=500):
    env = make_env(src)
    cg = CodeGen(env, word_size, stack_size, unchecked)
    cg.__class__ = VCodeGen
    cg.v_children = []
    return cg


def drive(gen):
    """run a generator method of CodeGen to completion: (instructions, return value)"""
    out = []
    try:
        while True:
            out.append(next(gen))
    except StopIteration as r:
        return out, r.value


def render(instrs):
    """the real rendering layer: asm.lines() over the yielded objects -> list[bytes]"""
    return list(asm.lines(iter(instrs)))
