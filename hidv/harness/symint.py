"""Proxy integers: compile-time integers of the real generator made symbolic (DESIGN.md section 5).

A SymInt is a linear form  c0 + sum(ci * sym_i)  over named integer symbols.  It flows through the *real* arithmetic of
StackPoint/Bubble/Tracker/IntLiteral.  A comparison is decided by z3 (linear integer arithmetic) under the current
assumptions; if both outcomes are possible the run *forks*: the decision is recorded, the condition is added to the
assumptions of this run, and the driver re-executes the real method with the other decision later.
Rendered into assembly text a SymInt appears as the placeholder `<<sym:N>>`, which hidv.sphinx.reader maps back.

What is not real here: the operator table of this class (listed in evidence as part of the harness).
"""
from __future__ import annotations
import z3


class Session:
    """one symbolic execution of a real method: assumptions, fork decisions, placeholder registry"""
    current = None

    def __init__(self, prefix=()):
        self.assumptions = []       # z3 Int formulas
        self.decisions = list(prefix)
        self.pos = 0
        self.registry = []          # SymInts rendered into text, index = placeholder number
        self.symbols = {}           # name -> (z3 Int, lo, hi)
        self.forked = []            # indices where a fresh decision was taken (alternatives to explore)

    def __enter__(self):
        self.prev = Session.current; Session.current = self; return self

    def __exit__(self, *a):
        Session.current = self.prev

    def symbol(self, name, lo=None, hi=None):
        v = z3.Int(name)
        self.symbols[name] = (v, lo, hi)
        if lo is not None: self.assumptions.append(v >= _z(lo))
        if hi is not None: self.assumptions.append(v <= _z(hi))
        return SymInt(0, {name: 1})

    def assume(self, cond_z3):
        self.assumptions.append(cond_z3)

    def decide(self, f):
        """f: z3 Bool over Int symbols -> python bool (forking if undetermined)"""
        s = z3.Solver(); s.add(*self.assumptions)
        s.push(); s.add(f); can_true = s.check() == z3.sat; s.pop()
        s.push(); s.add(z3.Not(f)); can_false = s.check() == z3.sat; s.pop()
        if can_true and not can_false: return True
        if can_false and not can_true: return False
        if not can_true and not can_false:
            raise Infeasible()
        if self.pos < len(self.decisions):
            d = self.decisions[self.pos]
        else:
            d = True; self.decisions.append(d); self.forked.append(self.pos)
        self.pos += 1
        self.assumptions.append(f if d else z3.Not(f))
        return d

    def register(self, x):
        for i, y in enumerate(self.registry):
            if y.same(x): return i
        self.registry.append(x); return len(self.registry) - 1


class Infeasible(Exception):
    pass


def _z(x):
    return x.z3() if isinstance(x, SymInt) else z3.IntVal(int(x))


def _norm(c, terms):
    terms = {k: v for k, v in terms.items() if v != 0}
    if not terms:
        return c
    return SymInt(c, terms)


class SymInt:
    __slots__ = ('c', 't')

    def __init__(self, c, terms):
        self.c = c; self.t = dict(terms)

    # --- structure
    def same(self, o):
        return isinstance(o, SymInt) and self.c == o.c and self.t == o.t

    def z3(self):
        e = z3.IntVal(self.c)
        for k, v in sorted(self.t.items()):
            e = e + v * z3.Int(k)
        return e

    def bv(self, bits, symmap=None):
        """value modulo 2**bits as a z3 bit-vector (ring homomorphism Int -> BV)"""
        e = z3.BitVecVal(self.c % (1 << bits), bits)
        for k, v in sorted(self.t.items()):
            s = symmap[k] if symmap and k in symmap else z3.BitVec(k, bits)
            e = e + z3.BitVecVal(v % (1 << bits), bits) * s
        return e

    def __repr__(self):
        return 'SymInt(' + ' + '.join([str(self.c)] + [f'{v}*{k}' for k, v in sorted(self.t.items())]) + ')'

    def __str__(self):
        return f'<<sym:{Session.current.register(self)}>>'

    def __format__(self, spec):
        return str(self)

    def __hash__(self):
        return hash((self.c, tuple(sorted(self.t.items()))))

    # --- arithmetic
    def __add__(self, o):
        if isinstance(o, SymInt):
            t = dict(self.t)
            for k, v in o.t.items(): t[k] = t.get(k, 0) + v
            return _norm(self.c + o.c, t)
        if isinstance(o, int): return _norm(self.c + o, self.t)
        return NotImplemented
    __radd__ = __add__

    def __neg__(self):
        return _norm(-self.c, {k: -v for k, v in self.t.items()})

    def __pos__(self):
        return self

    def __sub__(self, o):
        if isinstance(o, (SymInt, int)): return self + (-o)
        return NotImplemented

    def __rsub__(self, o):
        return (-self) + o

    def __mul__(self, o):
        if isinstance(o, int) and not isinstance(o, bool):
            return _norm(self.c * o, {k: v * o for k, v in self.t.items()})
        return NotImplemented
    __rmul__ = __mul__

    def _derived(self, tag, term):
        """a non-linear function of this value becomes a fresh symbol defined by an assumption (x & mask, x >> k)"""
        S = Session.current
        n = len([k for k in S.symbols if k.startswith('D')])
        name = f'D{n}{tag}'
        S.symbols[name] = (z3.Int(name), None, None)
        S.assumptions.append(z3.Int(name) == term)
        return SymInt(0, {name: 1})

    def __and__(self, o):
        if isinstance(o, int) and o >= 0 and (o & (o + 1)) == 0:
            return self._derived('and', self.z3() % (o + 1))      # Python ints are two's complement without bound: x & (2^k-1) = x mod 2^k
        return NotImplemented
    __rand__ = __and__

    def __rshift__(self, k):
        if isinstance(k, int) and k >= 0:
            return self._derived('shr', self.z3() / (1 << k))     # floor division by a positive constant
        return NotImplemented

    # --- comparisons (decided / forked)
    def _cmp(self, o, op):
        if not isinstance(o, (SymInt, int)):
            return NotImplemented
        d = self - o
        if isinstance(d, int):
            return {'==': d == 0, '!=': d != 0, '<': d < 0, '<=': d <= 0, '>': d > 0, '>=': d >= 0}[op]
        z = d.z3(); zero = z3.IntVal(0)
        f = {'==': z == zero, '!=': z != zero, '<': z < zero, '<=': z <= zero, '>': z > zero, '>=': z >= zero}[op]
        return Session.current.decide(f)

    def __eq__(self, o): return self._cmp(o, '==')
    def __ne__(self, o): return self._cmp(o, '!=')
    def __lt__(self, o): return self._cmp(o, '<')
    def __le__(self, o): return self._cmp(o, '<=')
    def __gt__(self, o): return self._cmp(o, '>')
    def __ge__(self, o): return self._cmp(o, '>=')

    def __bool__(self):
        return self != 0

    def __index__(self):
        raise TypeError(f'BOUNDED-IN needed: symbolic integer {self!r} was pushed into C code that needs a concrete int')
    __int__ = __index__
