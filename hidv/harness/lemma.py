"""Lemma runner: real CodeGen method on abstract children -> rendered text -> sphinxsem leaves -> obligations
SIM (simulation of the reference semantics), INV (machine invariant at exits), SAFE (memory safety), NOBOT, COVER.
"""
from __future__ import annotations
import dataclasses as dc, time, traceback
import z3
from hidc import ast
from hidc.ast import DataType, ArrayType, ExitMode
from hidc.codegen import asm, generator, stdlib
from hidc.codegen.generator import StackPoint, ArrayRef
from hidc.codegen.symbols import ConcreteArrayType, AccessMode
from hidc.codegen.tracker import Tracker
from hidv import smt
from hidv.oblig import Result, DISCHARGED, FAILED, UNDECIDED, ERROR
from hidv.sphinx import sem, reader
from hidv.sphinx.sem import State, Leaf, Ctx, Engine
from .symint import SymInt, Session
from .vcg import AExpr, ABlock, Opaque, make_codegen, drive, render, ChildInfo, SPAN
from . import spec as SP


@dc.dataclass
class ChildEvent:
    info: ChildInfo
    value: object
    pre: State
    fresh_mem: object
    lo: object                    # protected region is [lo, stack_end)
    abnormal: str | None = None
    ctx: object = None
    private: tuple = ()           # extents allocated by the construct itself so far: no reference exists yet, children cannot reach them
    def havoc(self, mem):
        return sem.as_mem(mem).havoc(self)

    def protects(self, a, n):
        c = self.ctx
        alts = [z3.And(self.lo <= a, a + n <= c.stack_end)] + [z3.And(lo_ <= a, a + n <= hi_) for lo_, hi_ in self.private]
        return z3.Or(*alts)

    def exposes(self, a, n):
        c = self.ctx
        return z3.And(z3.Or(a + n <= self.lo, c.stack_end <= a), *[z3.Or(a + n <= lo_, hi_ <= a) for lo_, hi_ in self.private])

    def havoc_z3(self, mem):
        c = self.ctx
        a = z3.Int('a!hv')
        prot = z3.And(self.lo <= a, a < c.stack_end)
        for lo_, hi_ in self.private:
            prot = z3.Or(prot, z3.And(lo_ <= a, a < hi_))
        return z3.Lambda([a], z3.If(prot, z3.Select(mem, a), z3.Select(self.fresh_mem, a)))


@dc.dataclass
class CallEvent:
    """a call through the call protocol, replaced by the callee's contract"""
    label: str
    args: list
    ret: object
    pre: State
    fresh_mem: object
    lo: object                    # callee frame pointer: [lo, stack_end) (caller frames) is preserved
    abnormal: str | None = None
    ctx: object = None
    private: tuple = ()
    info: object = None
    havoc = ChildEvent.havoc
    protects = ChildEvent.protects
    exposes = ChildEvent.exposes
    havoc_z3 = ChildEvent.havoc_z3


def root_cause(leaf):
    while leaf.kind == 'bot' and leaf.rewinds and leaf.rewinds[0][1].kind == 'bot':
        leaf = leaf.rewinds[0][1]
    return leaf


class LemmaCtx(Ctx):
    def all_pre(self):
        code = [v for n, v in self._lbl.items() if not n.startswith(('var_', 'data_', 'arg_', 'string_'))]
        d = [z3.Distinct(*code)] if len(code) > 1 else []
        return self.pre + self.facts + d + list(self.lemma.session.assumptions)


class Lemma:
    def __init__(self, name, w=2, unchecked=False, may_defeat=False, virtual_defeat=False, interpret=(), src=None,
                 n_prior_arrays=0, decisions=(), concrete_offset=None):
        self.name = name; self.w = w; self.unchecked = unchecked
        self.may_defeat = may_defeat; self.virtual_defeat = virtual_defeat
        self.session = Session(decisions); self.session.__enter__()
        S = self.session
        self.bits = 8 * w
        self.M = 1 << self.bits
        self.cg = make_codegen(w, unchecked, **({'src': src} if src else {}))
        cg = self.cg
        self.ctx = LemmaCtx(w, interpret=interpret, halting_cont=True)
        c = self.ctx
        c.lemma = self
        c.children = cg.v_children
        c.child_sem = self.child_sem
        c.stack_end = z3.Int('stack_end')
        c.max_revisits = 2
        # --- symbolic compile-time frame
        self.OMAX = 1 << (self.bits - 3)
        self.O = S.symbol('O', lo=w, hi=self.OMAX)            # frame offset at entry (at least the RA slot)
        if concrete_offset is not None:
            self.O = concrete_offset                          # function entry: gen_func starts from StackPoint(0)
        self.Sz = S.symbol('S', lo=0, hi=self.OMAX)           # static array bytes at entry
        cg.stack = StackPoint(offset=self.O, array_num=n_prior_arrays, static_array_size=self.Sz if n_prior_arrays else 0)
        self.entry_stack = cg.stack
        cg.checkpoints = Tracker()
        self.headroom = cg.checkpoints.add(cg.stack.static_size)
        if virtual_defeat:
            cg.effective_defeat = asm.State(cg.defeat); cg.func_defeat = cg.effective_defeat
        # --- symbolic entry state
        regs = {}
        for r in ('r0', 'r1', 'r2', 'ap', 'fp', 'try_fp', 'defeat'):
            regs[r] = z3.Int(r + '0')
            c.pre += [regs[r] >= 0, regs[r] < self.M]
        self.entry = State(regs, z3.Array('mem0', z3.IntSort(), z3.IntSort()))
        self.entry_offset = self.term(self.O)
        fp, ap = regs['fp'], regs['ap']
        c.pre += [5 * w <= ap, ap + self.term(self.O) <= fp,                  # I-regs: stack_start <= ap <= fp - offset
                  fp <= c.stack_end, c.stack_end < self.M // 2]
        if not virtual_defeat:
            c.pre.append(regs['defeat'] == c.label('halt'))
        self.vars = {}          # name -> ('local', offset SymInt, size, type) | ('global', label term, size, type)
        self.results = []
        self._nsym = 0
        self.functions = set()
        self.exit_labels = {}
        self.glue_may_defeat = False      # the construct under test is itself a defeat primitive (!is_defeat, !truth_is_defeat)
        self.ap_at_function_entry = regs['ap']; self.ap_at_loop_restore = regs['ap']
        self.func_defeat_value = regs['defeat']; self.loop_defeat_value = regs['defeat']
        self.expected_ap_delta = None
        self.prior_arrays = []
        for i in range(n_prior_arrays):
            self.add_prior_array(i)
        if n_prior_arrays:
            self.ap_at_function_entry = self.prior_arrays[0]['origin_value']

    def add_prior_array(self, i, el_type=DataType.INT):
        """an array allocated earlier in this activation (I-arrays): its (length, origin) slots live in the entry frame, the origin
        slot holds the value ap had before the array was allocated; extents stack up below the current ap"""
        cg = self.cg; w = self.w; E = self.entry
        X = self.sym(f'XA{i}')          # offset of the origin slot; the length slot is the word above it
        self.session.assume(X.z3() >= 3 * w); self.session.assume(X.z3() <= self.term(self.O))
        origin = asm.Indirect(asm.Section.STATE, asm.State(cg.fp), asm.IntLiteral(-X))
        length = asm.Indirect(asm.Section.STATE, asm.State(cg.fp), asm.IntLiteral(-(X - w)))
        ref = ArrayRef(ConcreteArrayType(el_type, AccessMode.RW), origin=origin, length=length)
        cg.allocated_arrays.append(ref)
        fp = E.regs['fp']
        def word(a):
            v = None
            for k in range(w):
                b = z3.Select(E.mem, a + k); self.ctx.facts += [b >= 0, b <= 255]
                v = b if v is None else v + (1 << (8 * k)) * b
            return v
        ov = word(fp - X.z3())
        prev_top = self.prior_arrays[-1]['origin_value'] if self.prior_arrays else None
        # stack discipline: 5w <= origin_0 <= origin_1 <= ... <= ap
        self.ctx.pre += [5 * w <= ov, ov <= E.regs['ap']]
        if prev_top is not None:
            self.ctx.pre.append(prev_top <= ov)
        self.prior_arrays.append({'ref': ref, 'origin_value': ov, 'offset': X})

    def close(self):
        self.session.__exit__(None, None, None)

    # ---- abstract operands -----------------------------------------------------------------------------------------
    def sym(self, prefix, lo=None, hi=None):
        self._nsym += 1
        return self.session.symbol(f'{prefix}{self._nsym}', lo, hi)

    def term(self, x):
        """compile-time integer (int or SymInt) as an integer term (unreduced)"""
        return x.z3() if isinstance(x, SymInt) else z3.IntVal(int(x))

    def word(self, x):
        return self.ctx.wrap(self.term(x))

    def const_value(self, data):
        return self.word(data)

    def string_value(self, data):
        lbl = self.cg.string_labels[data]
        return self.ctx.label(lbl.label_name)

    def size_of(self, t):
        return 1 if t.byte_sized else self.w

    def opaque(self, name, t=DataType.INT):
        return AExpr(name, t)

    def literal(self, name, t=DataType.INT):
        if t == DataType.BOOL:
            raise ValueError('bool literals are concrete')
        if t == DataType.BYTE:
            return ast.ByteValue(self.sym('K' + name, 0, 255), SPAN)
        return ast.IntValue(self.sym('K' + name), SPAN)      # any Python integer: the assembler wraps the decimal

    def local(self, name, t=DataType.INT, const=False):
        size = self.size_of(t)
        # slot somewhere in the entry frame below the RA word
        X = self.sym('X' + name)
        self.session.assume(X.z3() >= size + self.w)
        self.session.assume(X.z3() <= self.term(self.O))
        acc = (asm.IndirectByte if size == 1 else asm.Indirect)(asm.Section.STATE, asm.State(self.cg.fp), asm.IntLiteral(-X))
        self.cg.local_vars[name] = acc
        var = ast.Variable(name, t, const)
        self.vars[name] = ('local', X, size, t)
        if t == DataType.BOOL:      # I-bool for the slot
            cell = z3.Select(self.entry.mem, self.entry.regs['fp'] - X.z3())
            self.ctx.pre += [cell >= 0, cell <= 1]
        return ast.VariableLookup(var, SPAN)

    def glob(self, name, t=DataType.INT):
        """non-const global scalar (volatile in the sense of eval_expr)"""
        size = self.size_of(t)
        label = asm.LabelRef(f'var_{name}_0')
        acc = asm.StateByte(label) if size == 1 else asm.State(label)
        self.cg.global_vars[name] = acc
        L = self.ctx.label(label.label_name)
        self.ctx.extents.append((L, L + size))
        self.ctx.pre += [self.ctx.stack_end <= L, L + size < self.M // 2]
        var = ast.Variable(name, t, False)
        self.vars[name] = ('global', L, size, t)
        if t == DataType.BOOL:
            cell = z3.Select(self.entry.mem, L)
            self.ctx.pre += [cell >= 0, cell <= 1]
        return ast.VariableLookup(var, SPAN)

    def var_address(self, var):
        kind, where, size, t = self.vars[var.name]
        if kind == 'local':
            return self.entry.regs['fp'] - where.z3(), size
        return where, size

    def read_var(self, S, var):
        a, size = self.var_address(var)
        return S.load(S.mem, a, size)

    # ---- child contract (DESIGN Appendix B) -----------------------------------------------------------------------------
    def child_sem(self, engine, info, st, cond):
        c = self.ctx
        node = info.node
        o_now = self.term(info.stack.offset)
        fp, ap = st.regs['fp'], st.regs['ap']
        # child preconditions: Inv at the compile-time stack the generator has at this moment
        engine.safety.append((list(cond), f'child {node!r} precondition: fp is the activation frame pointer', fp == self.entry.regs['fp']))
        engine.safety.append((list(cond), f'child {node!r} precondition: ap <= fp - offset (frame above array stack)', ap + o_now <= fp))
        if not getattr(self, 'children_may_run_below_entry_ap', False):
            # I-arrays: while a sub-expression / sub-block runs, every array that is in scope is still allocated: ap is not below the value it had
            # when the construct was entered (a construct releases arrays only on its way out)
            engine.safety.append((list(cond), f'child {node!r} precondition: arrays in scope stay allocated (ap not below its value at the entry of the construct)',
                                  ap >= self.entry.regs['ap']))
        if not getattr(self, 'children_run_with_changed_defeat', False):
            # I-defeat: a sub-expression / sub-block runs under the defeat handler (and saved try frame) that was current when
            # the construct was entered -- a defeat inside it must still reach the enclosing try's handler
            engine.safety.append((list(cond), f'child {node!r} precondition: the defeat word is the one the construct was entered with',
                                  st.regs['defeat'] == self.entry.regs['defeat']))
            engine.safety.append((list(cond), f'child {node!r} precondition: try_fp unchanged', st.regs['try_fp'] == self.entry.regs['try_fp']))
        pre = st.copy()
        st2 = st.copy()
        lo = fp - o_now
        fresh_mem = c.fresh('m_' + node.name, 'mem')
        v = None; extra = []
        for r in ('r0', 'r1', 'r2'):
            st2.regs[r] = c.fresh('hv_' + r)
        if info.kind == 'expr':
            v = c.fresh('v_' + node.name)
            from contracts import isa as _isa
            if node.type == DataType.BOOL: extra.append(v <= 1); _isa.set_maybits(v, 1)
            elif node.type == DataType.BYTE: extra.append(v <= 255); _isa.set_maybits(v, 0xFF)
            elif node.type == DataType.STRING: self.string_object(v)
        ev = ChildEvent(info, v, pre, fresh_mem, lo, None, c, tuple(st.extents))
        st2.mem = ev.havoc(st.mem)
        if info.kind == 'expr':
            if info.r_out in st2.regs:
                st2.regs[info.r_out] = v
            else:
                # r_out is the label of a global word (assignment evaluates straight into the variable): the child's last
                # action is the store of its value there
                engine.store(st2, cond, c.label(info.r_out), self.w, v, f'child {node!r} result into [{info.r_out}]')
        st2.trace = st.trace + (('child', info, ev),)
        # (for the concrete replay of counter-models, hidv/harness/cexrun.py: what the child left in the registers)
        ev.post_regs = {r: st2.regs[r] for r in ('r0', 'r1', 'r2')}
        ev.post_store = None if (info.kind != 'expr' or info.r_out in st2.regs) else (c.label(info.r_out), self.w, v)
        def abnormal(kind):
            e2 = ChildEvent(info, None, pre, fresh_mem, lo, kind, c, tuple(st.extents))
            s3 = st2.copy(); s3.trace = st.trace + (('child', info, e2),)
            return s3
        leaves = []
        may_defeat = self.may_defeat
        if info.kind == 'expr':
            leaves.append((extra, 'normal', None, st2))
            leaves.append(([], 'term', 'child', abnormal('term')))
        else:
            # block child (DESIGN Appendix B): only the exits in its mode set occur (plus `continue`, which exit_modes does not track)
            modes = node.exit_modes()
            if ExitMode.NONE in modes:
                leaves.append(([], 'normal', None, st2))
            if ExitMode.LOOP in modes:
                leaves.append(([], 'term', 'child', abnormal('term')))
            if ExitMode.RETURN in modes:
                # the child executed a return statement: its own lemma shows ap/defeat are restored and control goes to RA
                leaves.append(([], 'child-return', None, abnormal('return')))
            for kind, want, idx in (('break', ExitMode.BREAK in modes, 0), ('continue', node.may_continue, 1)):
                if want:
                    if info.loop is None:
                        raise sem.EngineError(f'abstract block with {kind} outside a loop')
                    s3 = abnormal(kind)
                    # contract of break/continue (their own lemma): ap back at the loop's restore point, defeat = loop_defeat
                    s3.regs['ap'] = info.loop[2] if info.loop[2] is not None else self.entry.regs['ap']
                    if info.loop[2] is None and len(info.loop) > 5 and int(info.loop[5].array_num) != int(self.entry_stack.array_num):
                        # the real LoopInfo's restore point is not the stack at the entry of the construct: break/continue release a different
                        # set of arrays than the ones allocated since the loop was entered
                        s3.regs['ap'] = c.fresh('ap_restore_point')
                    # ... where loop_defeat is what the *real* LoopInfo of the innermost enclosing loop recorded (the break/continue lemma
                    # restores exactly that): the immediate `halt`, or the defeat word as it was when the construct was entered
                    if info.loop[3] is not None:
                        s3.regs['defeat'] = info.loop[3]
                    elif len(info.loop) > 4 and info.loop[4] == stdlib.halt:
                        s3.regs['defeat'] = c.label('halt')
                    else:
                        s3.regs['defeat'] = self.entry.regs['defeat']
                    leaves.append(([], 'jump', info.loop[idx], s3))
            # exit_modes() records DEFEAT only for statement-level defeat calls: inside a try body / defeat function a block
            # may reach defeat from within an expression without DEFEAT being in its mode set
            may_defeat = ExitMode.DEFEAT in modes or node.name in getattr(self, 'blocks_may_defeat_silently', ())
        if may_defeat:
            if info.effective_defeat == stdlib.halt:
                leaves.append(([], 'bot', None, abnormal('defeat')))
            else:
                s3 = abnormal('defeat')
                # defeat may be raised from an arbitrarily deep callee: fp and ap are whatever they are there
                s3.regs['fp'] = c.fresh('fp_d'); s3.regs['ap'] = c.fresh('ap_d')
                # ... but deeper activations live below this frame and above the array stack (I-regs of those activations)
                deep = [ap <= s3.regs['ap'], s3.regs['ap'] <= s3.regs['fp'], s3.regs['fp'] <= fp - o_now]
                leaves.append((deep, 'goto', s3.regs['defeat'], s3))
        return leaves

    # ---- running a real method ----------------------------------------------------------------------------------------
    def emit(self, gen):
        instrs, ret = drive(gen)
        # the enclosing block ends: the Tracker finalises its checkpoints (DynamicValues render only afterwards)
        self.finalize_headroom()
        lines = render(instrs)
        return instrs, lines, ret

    def finalize_headroom(self):
        """pop the harness checkpoint: the real Tracker now knows the maximum static size the method reached"""
        if getattr(self, '_finalized', False):
            return self.headroom._data
        self._finalized = True
        self.cg.checkpoints.pop_level()
        Mx = self.headroom._data
        if Mx is None:
            return None         # the method replaced the Tracker (gen_func): its own entry guard establishes the head-room
        c = self.ctx
        # I-headroom: fp - ap >= M - S   (checked builds establish it by the guards; unchecked builds assume it)
        c.pre.append(self.entry.regs['ap'] + self.term(Mx - self.entry_stack.static_array_size) <= self.entry.regs['fp'])
        return Mx

    def pending_forks(self):
        """decision prefixes still to explore after this run"""
        d = self.session.decisions
        return [tuple(d[:i]) + (not d[i],) for i in self.session.forked]

    def refresh_syms(self):
        self.ctx.syms = {i: self.term(x) for i, x in enumerate(self.session.registry)}

    def run_engine(self, lines, entry=None, cond=()):
        self.refresh_syms()
        eng = Engine(sem.fragment(lines), self.ctx)
        leaves = eng.run(0, (entry or self.entry).copy(), list(cond))
        self.last_engine = eng; self.last_leaves = leaves
        return eng, leaves

    def read_accessor(self, acc, leaf, scratch='r2'):
        """value an accessor denotes in the leaf's state, obtained by running the accessor's own real `.get()` code"""
        ins, res = drive(acc.get(asm.LabelRef(scratch)))
        lines = render(ins)
        text = bytes(res)
        self.refresh_syms()
        eng = Engine(sem.fragment(lines), self.ctx)
        ls = eng.run(0, leaf.st.copy(), list(leaf.cond))
        assert len(ls) == 1 and ls[0].kind == 'exit'
        return eng.val(ls[0].st, ls[0].cond, reader.parse_operand(text)), eng.safety

    # ---- obligations -------------------------------------------------------------------------------------------------
    def add(self, clause, status, t0, props, detail=None, backend='sphinxsem+z3'):
        d = dict(detail or {})
        d.setdefault('functions', sorted(self.functions))
        if status == FAILED and hasattr(self, 'lines'):
            d.setdefault('emitted', [l.decode('latin1') for l in self.lines][:80])
        if status == FAILED and (d.get('replay') or {}).get('reproduced') is not True and (clause in ('LEAVES', 'CHILD-DEFEAT', 'PROTECTED') or self.name.startswith('time/')):
            # time-travel obligations: no model replay (halting continuations); replay on the witness programs with documented behaviour
            try:
                from contracts import witness
                rep = witness.replay_time_cached(self.w, bool(self.unchecked))
                if rep.get('reproduced') or 'replay' not in d:
                    d['replay'] = rep
            except Exception as e:
                d.setdefault('replay', {'reproduced': None, 'how': f'no replay: {e!r}'})
        self.results.append(Result(f'{self.name}/{clause}', status, backend, time.time() - t0, tuple(props), d))

    def prove_all(self, clause, items, props, t0=None):
        """items: (cond list, text, formula)"""
        t0 = t0 or time.time()
        c = self.ctx
        if clause in ('SAFE', 'CHILDPRE'):
            dft = [i for i in items if 'precondition: the defeat word' in i[1] or 'precondition: try_fp' in i[1]]
            if dft:
                items = [i for i in items if i not in dft]
                self.prove_all('CHILD-DEFEAT', dft, ('C02', 'C03'))
            arr = [i for i in items if 'arrays in scope stay allocated' in i[1]]
            if arr:
                items = [i for i in items if i not in arr]
                self.prove_all('CHILD-ARRAYS', arr, ('C08', 'C04'))
        if not items:
            return True
        bad = None; n = 0
        if len(items) > 1:
            # one query for the conjunction; on failure fall through to the itemised loop to name the culprit
            goal = z3.And(*[z3.Implies(z3.And(*cond) if cond else z3.BoolVal(True), f) for cond, _, f in items])
            o = smt.prove(c.all_pre(), goal)
            if o.verdict == smt.PROVED:
                self.add(clause, DISCHARGED, t0, props, {'formula': f'{len(items)} conditions, e.g. {items[0][1]}', 'count': len(items)})
                return True
        for cond, text, f in items:
            n += 1
            o = smt.prove(c.all_pre() + list(cond), f)
            if o.verdict == smt.PROVED:
                continue
            if o.verdict == smt.UNKNOWN:
                self.add(clause, UNDECIDED, t0, props, {'message': f'{text}: {o.reason}', 'formula': text}); return False
            bad = (text, o); bad_cond = cond; bad_formula = f; break
        if bad:
            text, o = bad
            d = {'formula': text, 'model': smt.model_to_json(o.model), 'message': f'refuted: {text}'}
            rep = None
            if clause == 'SAFE' and getattr(self, 'last_engine', None) is not None and not getattr(self, 'no_model_replay', False):
                try:
                    from . import cexrun
                    rep = cexrun.replay_access(self, self.last_engine, bad_formula, bad_cond)
                except Exception as e:
                    rep = {'reproduced': None, 'how': f'no concrete replay: {type(e).__name__}: {e}'}
            if rep is None:
                rep = self.model_replay(bad_cond, o.model)
            if rep is not None:
                d['replay'] = rep
            self.add(clause, FAILED, t0, props, d)
            return False
        self.add(clause, DISCHARGED, t0, props, {'formula': f'{n} conditions, e.g. {items[0][1] if items else "-"}', 'count': n})
        return True

    def model_replay(self, cond, model, leaf=None):
        """concrete replay of a counter-model on the emitted text (hidv/harness/cexrun.py); None when not applicable"""
        if getattr(self, 'no_model_replay', False) or not getattr(self, 'lines', None):
            return None
        leaves = getattr(self, 'last_leaves', None) or []
        if leaf is None and cond is not None:
            for l in leaves:
                if l.cond is cond or (len(l.cond) == len(cond) and all(a is b or a.eq(b) for a, b in zip(l.cond, cond))):
                    leaf = l; break
        if leaf is None:
            return None
        try:
            from . import cexrun
            return cexrun.replay(self, leaf, model)
        except Exception as e:          # the replay is an aid: never let it mask the failed obligation
            return {'reproduced': None, 'how': f'no concrete replay: {type(e).__name__}: {e}'}

    def simulate(self, leaves, program, compare, props, clause='SIM'):
        """program(S) runs the reference semantics; compare(S, leaf, out) checks results on normal completion"""
        t0 = time.time()
        n = 0
        try:
            for leaf in leaves:
                if leaf.tag is not None:
                    if getattr(self, 'return_protected', False) and leaf.kind == 'term' and leaf.tgt == 'nonlocal_preempt' and leaf.tag[0] == 'assumed-bot' \
                            and leaf.tag[1].kind == 'ijump' and [e[:2] for e in leaf.st.trace[len(leaf.tag[1].st.trace):]] == [('flag', 'nonlocal_preempt'), ('flag', 'error')]:
                        # README "Preemptive defeat functions": if what follows the return of a preemptive defeat function leads to defeat,
                        # safety was not provided: the run ends with the nonlocal_preempt error instead (the return itself is the untagged leaf)
                        continue
                    if leaf.kind != 'bot':
                        raise SP.Mismatch(f'if the continuation halted, the emitted code would {leaf.kind} {leaf.tgt} instead of being defeat')
                    continue
                # a defeat leaf reached after rewinding: the construct as a whole is defeat (everything on the way is discarded by
                # the machine).  It is justified if the final halting path *or* one of the halting paths that were rewound on
                # the way simulates a run of the source semantics that ends in defeat (its condition is part of this leaf's).
                cands = [leaf]
                if leaf.kind == 'bot':
                    def causes(l):
                        for _, c_ in l.rewinds:
                            if c_.kind == 'bot' and c_.tag is None:
                                cands.append(c_); causes(c_)
                    causes(leaf)
                first_err = None
                for cand in cands:
                    try:
                        todo = [list(leaf.cond if cand is leaf else cand.cond)]
                        while todo:
                            cond = todo.pop()
                            n += 1
                            S = SP.SpecRun(self, cand, cond)
                            try:
                                try:
                                    out = SP.Out('normal', program(S))
                                except SP.Abrupt as a:
                                    out = a.out
                                self.match(S, cand, out, compare)
                            except SP.Split as s:
                                for cc in (s.c, z3.Not(s.c)):
                                    if smt.satisfiable(self.ctx.all_pre() + cond + [cc]):
                                        todo.append(cond + [cc])
                        first_err = None
                        break
                    except SP.Mismatch as m:
                        first_err = first_err or m
                if first_err is not None:
                    raise first_err
        except SP.Mismatch as m:
            d = {'message': m.why, 'model': smt.model_to_json(m.info.get('model')),
                 'formula': 'every leaf of the emitted code simulates the reference semantics',
                 'code_value': str(m.info.get('code'))[:300], 'spec_value': str(m.info.get('spec'))[:300]}
            rep = self.model_replay(None, m.info.get('model'), leaf=cand)
            if rep is not None:
                d['replay'] = rep
            self.add(clause, FAILED, t0, props, d)
            return False
        except (SP.Undecided, sem.EngineError) as u:
            self.add(clause, UNDECIDED, t0, props, {'message': repr(u)}); return False
        self.add(clause, DISCHARGED, t0, props, {'formula': f'{len(leaves)} leaves of the emitted code ({n} after case splits) simulate the reference semantics',
                                                  'leaves': len(leaves)})
        return True

    def match(self, S, leaf, out, compare):
        """leaf of the emitted code vs outcome of the reference semantics"""
        if out.kind == 'ub':
            return    # unchecked build beyond a fault: unspecified (C15 precondition)
        k = leaf.kind
        if out.kind == 'normal':
            if not (k == 'exit' and leaf.tgt == '<end>'):
                raise SP.Mismatch(f'source semantics completes normally, emitted code does {k} {leaf.tgt}')
            compare(S, leaf, out)
        elif out.kind == 'fault':
            if not (k == 'term' and leaf.tgt == out.what):
                raise SP.Mismatch(f'source semantics faults with {out.what}, emitted code does {k} {leaf.tgt}')
        elif out.kind == 'child-abnormal':
            if out.what == 'term' and not (k == 'term' and leaf.tgt == 'child'):
                raise SP.Mismatch(f'child entered a terminal state, emitted code continued: {k} {leaf.tgt}')
            if out.what == 'defeat' and k not in ('bot', 'ijump'):
                raise SP.Mismatch(f'child reached defeat, emitted code continued: {k} {leaf.tgt}')
        elif out.kind == 'terminal':
            if not (k == 'term' and leaf.tgt == out.what):
                raise SP.Mismatch(f'source semantics enters the terminal state {out.what}, emitted code does {k} {leaf.tgt}')
        elif out.kind == 'child-term':
            if not (k == 'term' and leaf.tgt == 'child'):
                raise SP.Mismatch(f'child entered a terminal state, emitted code continued: {k} {leaf.tgt}')
        elif out.kind == 'child-return':
            if k != 'child-return':
                raise SP.Mismatch(f'child returned from the function, emitted code continued: {k} {leaf.tgt}')
        elif out.kind == 'defeat':
            if k not in ('bot', 'ijump'):
                raise SP.Mismatch(f'source semantics reaches defeat, emitted code does {k} {leaf.tgt}')
        elif out.kind in ('break', 'continue', 'loop-back'):
            want = self.exit_labels.get(out.kind)
            if not (k == 'exit' and leaf.tgt == want):
                raise SP.Mismatch(f'source semantics does {out.kind} (label {want}), emitted code does {k} {leaf.tgt}')
            compare(S, leaf, out)
        elif out.kind == 'return':
            if k != 'ijump':
                raise SP.Mismatch(f'source semantics returns from the function, emitted code does {k} {leaf.tgt}')
            compare(S, leaf, out)
        else:
            raise SP.Mismatch(f'unexpected outcome {out.kind}')
        if S.pos != len(S.trace):
            e = S.trace[S.pos]
            raise SP.Mismatch(f'emitted code performs an extra {e[0]} {e[1] if e[0] != "child" else e[1].node!r} the source semantics does not')

    def inv_at_exit(self, leaves, props, clause='INV', ap_delta=None, defeat_same=True, kinds=('exit',), ap_check=True):
        """machine invariant at normal exits: fp, try_fp, defeat unchanged, ap = entry ap (+ delta)"""
        t0 = time.time()
        items = []
        E = self.entry.regs
        for l in leaves:
            if l.kind in kinds and l.tag is None:
                r = l.st.regs
                items.append((l.cond, 'fp unchanged at exit', r['fp'] == E['fp']))
                if ap_check:
                    items.append((l.cond, 'ap as at entry (plus what the construct allocates)', r['ap'] == E['ap'] + (ap_delta if ap_delta is not None else 0)))
                items.append((l.cond, 'try_fp unchanged at exit', r['try_fp'] == E['try_fp']))
                if defeat_same:
                    items.append((l.cond, 'defeat unchanged at exit', r['defeat'] == E['defeat']))
        if not items:
            return True
        return self.prove_all(clause, items, props, t0)

    def nobot(self, leaves, props, clause='NOBOT'):
        """C03: outside defeat context the emitted code has no defeat leaf of its own"""
        t0 = time.time()
        def child_defeated(l):
            chain = [l]
            def causes(x):
                for _, c_ in x.rewinds:
                    if c_.kind == 'bot' and c_.tag is None:
                        chain.append(c_); causes(c_)
            causes(l)
            return any(x.st.trace and x.st.trace[-1][0] in ('child', 'call') and x.st.trace[-1][2].abnormal == 'defeat' for x in chain)
        # a defeat leaf is legitimate only as the direct consequence of a child that reached defeat (which the context
        # rules allow only in defeat context); a halt of the glue itself on the committed timeline is a violation
        bad = [l for l in leaves if l.kind == 'bot' and l.tag is None and not child_defeated(l) and not self.glue_may_defeat]
        if bad:
            o = bad[0]
            s = z3.Solver(); s.add(*self.ctx.all_pre()); s.add(*o.cond)
            mdl = s.model() if s.check() == z3.sat else None
            self.add(clause, FAILED, t0, props, {'message': 'a halt is reachable on the committed timeline (no Turing jump averts it)',
                                                  'model': smt.model_to_json(mdl)})
            return False
        self.add(clause, DISCHARGED, t0, props, {'formula': f'none of the {len(leaves)} leaves is a committed halt'})
        return True

    def cover(self, leaves, wanted, props, clause='COVER'):
        """vacuity guard: each expected leaf kind is reachable"""
        t0 = time.time()
        have = {(l.kind, l.tgt if isinstance(l.tgt, str) else None) for l in leaves if l.tag is None}
        missing = [w for w in wanted if w not in have]
        if missing:
            self.add(clause, FAILED, t0, props, {'message': f'expected leaf kinds not reachable: {missing}; have {sorted(map(str, have))}'})
            return False
        self.add(clause, DISCHARGED, t0, props, {'formula': f'reachable: {sorted(map(str, wanted))}'}, backend='sphinxsem+z3')
        return True

    # ---- the standard flow for a scalar expression lemma ------------------------------------------------------------------
    def guarded_emit(self, make_gen, props=('C10',)):
        """run the real method; an exception other than CompilerError on a well-typed abstract input fails NOERR"""
        t0 = time.time()
        from hidc.errors import CompilerError
        try:
            out = self.emit(make_gen())
        except CompilerError:
            raise
        except Exception as e:  # AssertionError, InternalCompilerError, TypeError ...
            self.add('NOERR', FAILED, t0, props, {'message': f'real generator method raised {type(e).__name__}: {e}',
                                                   'traceback': ''.join(traceback.format_exception(e))[-2500:],
                                                   'replay': {'reproduced': True, 'how': 'the exception was raised by the real method run by CPython'}},
                     backend='harness')
            return None
        self.add('NOERR', DISCHARGED, t0, props, {'formula': 'the real method completes without internal exception on this abstract input'},
                 backend='harness')
        return out

    def nonvolatile(self, acc, bubble):
        """keep=True promise: the accessor survives evaluation of later expressions (DESIGN Appendix B)"""
        if isinstance(acc, asm.Immediate):
            return True
        if isinstance(acc, (asm.Indirect, asm.IndirectByte)) and acc.base == asm.State(self.cg.fp) and isinstance(acc.offset, asm.IntLiteral):
            off = -acc.offset.data
            return bool(off <= bubble.cur.offset) and bool(off >= 1)
        return False

    def check_scalar_expr(self, e, r_out, keep, P, want_cover=(('exit', '<end>'),)):
        """P: dict clause -> props"""
        cg = self.cg
        out = self.guarded_emit(lambda: cg.eval_expr(asm.LabelRef(r_out), e, keep), P.get('NOERR', ('C10',)))
        if out is None:
            return self.results
        instrs, lines, bubble = out
        self.lines = lines
        t0 = time.time()
        book = []
        if not (bubble.prev == self.entry_stack): book.append('bubble.prev is not the entry stack')
        if not (cg.stack == bubble.cur): book.append('self.stack is not bubble.cur after the call')
        if keep and not self.nonvolatile(bubble.value, bubble): book.append(f'keep=True but the result accessor {bubble.value} is volatile')
        if bubble.cur.array_num != self.entry_stack.array_num: book.append('scalar expression changed array_num')
        self.add('BOOK', FAILED if book else DISCHARGED, t0, P['SIM'], {'message': '; '.join(book), 'formula': 'bubble bookkeeping of eval_expr',
                 'replay': {'reproduced': True, 'how': 'observed on the value returned by the real method'}}, backend='harness')
        self.finalize_headroom()
        eng, leaves = self.run_engine(lines)
        extra_safety = []

        def compare(S, leaf, o):
            v, saf = self.read_accessor(bubble.value, leaf)
            extra_safety.extend(saf)
            S.require_eq(v, o.value, 'result value')
            S.sync(leaf.st, 'at exit')
        self.simulate(leaves, lambda S: S.eval(e), compare, P['SIM'])
        self.inv_at_exit(leaves, P['INV'])
        self.nobot(leaves, P['NOBOT'])
        if not self.unchecked:
            self.prove_all('SAFE', eng.safety + extra_safety, P['SAFE'])
        else:
            self.prove_all('CHILDPRE', [s for s in eng.safety if 'precondition' in s[1]], P['SIM'])
        self.cover(leaves, list(want_cover), P['SIM'])
        return self.results

    # ---- blocks ------------------------------------------------------------------------------------------------------------
    def enclosing_loop(self):
        """the construct under test sits inside a loop of the enclosing code: break/continue leave through these labels"""
        cg = self.cg
        cg.loop_info.append(generator.LoopInfo(cg.stack, asm.LabelRef('continue_ext'), asm.LabelRef('break_ext'), cg.effective_defeat))
        self.exit_labels.update({'break': 'break_ext', 'continue': 'continue_ext'})

    def check_block(self, block, P, want_cover=(('exit', '<end>'),)):
        cg = self.cg
        depth = len(cg.local_vars.maps); n_arr = len(cg.allocated_arrays); n_loop = len(cg.loop_info)
        out = self.guarded_emit(lambda: cg.gen_block(block), P.get('NOERR', ('C10',)))
        if out is None:
            return self.results
        instrs, lines, _ = out
        self.lines = lines
        t0 = time.time(); book = []
        if not (cg.stack == self.entry_stack): book.append('self.stack not restored after the block')
        if len(cg.allocated_arrays) != n_arr: book.append('allocated_arrays not restored after the block')
        if len(cg.local_vars.maps) != depth: book.append('scope chain not restored after the block')
        if len(cg.loop_info) != n_loop: book.append('loop_info not restored after the block')
        self.add('BOOK', FAILED if book else DISCHARGED, t0, P['SIM'], {'message': '; '.join(book), 'formula': 'compile-time bookkeeping restored after gen_block',
                 'replay': {'reproduced': True, 'how': 'observed on the real CodeGen object after the real method'}}, backend='harness')
        if isinstance(block, ast.LoopBlock):
            lbl = [i.label.label_name for i in instrs if isinstance(i, asm.Label) and i.label.label_name.startswith('loop_')]
            self.ctx.cut_labels = set(lbl[:1]); self.exit_labels['loop-back'] = lbl[0] if lbl else None
        self.finalize_headroom()
        eng, leaves = self.run_engine(lines)
        self.last_leaves = leaves

        def compare(S, leaf, o):
            S.sync(leaf.st, 'at exit')
        self.simulate(leaves, lambda S: S.exec_block(block), compare, P['SIM'])
        self.inv_at_exit([l for l in leaves if l.kind == 'exit'], P['INV'])
        self.nobot(leaves, P['NOBOT'])
        if not self.unchecked:
            self.prove_all('SAFE', eng.safety, P['SAFE'])
        else:
            self.prove_all('CHILDPRE', [s for s in eng.safety if 'precondition' in s[1]], P['SIM'])
        self.modes_respected(block, leaves, P.get('MODES', ('C16',)))
        self.cover(leaves, list(want_cover), P['SIM'])
        return self.results

    def modes_respected(self, block, leaves, props, clause='MODES'):
        """C16: every way the emitted code can end is allowed by the *real* exit_modes() of the block"""
        t0 = time.time()
        try:
            modes = block.exit_modes()
        except Exception as e:
            self.add(clause, UNDECIDED, t0, props, {'message': f'exit_modes raised {e!r}'}); return
        bad = []
        for l in leaves:
            if l.tag is not None: continue
            if l.kind == 'exit' and l.tgt == '<end>' and ExitMode.NONE not in modes: bad.append('falls through although NONE is not an exit mode')
            if l.kind == 'exit' and l.tgt == self.exit_labels.get('break') and ExitMode.BREAK not in modes: bad.append('break although BREAK is not an exit mode')
        self.add(clause, FAILED if bad else DISCHARGED, t0, props, {'formula': f'fall-through / break leaves of the emitted code are within exit_modes() = {modes!r}',
                                                                    'message': '; '.join(sorted(set(bad)))})

    # ---- statements -----------------------------------------------------------------------------------------------------------
    def function_context(self, ret_type=DataType.INT, in_try=False):
        """the statement under test sits in a function body: RA slot at [fp-w, fp); `return` leaves through it"""
        cg = self.cg
        cg.return_address = asm.Indirect(asm.Section.STATE, asm.State(cg.fp), asm.IntLiteral(-self.w))
        # call protocol: the RA word holds the caller's end_call label (or all_is_win for the entry point), never `halt`
        ra = None
        for k in range(self.w):
            b = z3.Select(self.entry.mem, self.entry.regs['fp'] - self.w + k); self.ctx.facts += [b >= 0, b <= 255]
            ra = b if ra is None else ra + (1 << (8 * k)) * b
        self.ctx.pre.append(ra != self.ctx.label('halt'))
        self.RA = ra
        if in_try:
            # inside a try/stop body of a you-function: effective defeat is the variable, func_defeat is halt
            cg.func_defeat = stdlib.halt
            cg.effective_defeat = asm.State(cg.defeat)
            cg.needs_variable_defeat = True
            self.func_defeat_value = self.ctx.label('halt')

    def ra_value(self, S):
        return S.load(self.entry.mem, self.entry.regs['fp'] - self.w, self.w)

    def array_base_ap(self, S, idx):
        """I-arrays: the origin slot of allocated array number idx holds the value ap had before it was allocated"""
        ref = self.cg_arrays_at_entry[idx]
        return self.prior_arrays[idx]['origin_value']

    def check_stmts(self, stmts, P, want_cover=(('exit', '<end>'),), expect_exit=None):
        cg = self.cg
        self.cg_arrays_at_entry = list(cg.allocated_arrays)
        out = self.guarded_emit(lambda: cg.gen_stmts(stmts), P.get('NOERR', ('C10',)))
        if out is None:
            return self.results
        instrs, lines, (exited, var_bubble) = out
        self.lines = lines
        t0 = time.time(); book = []
        if not (var_bubble.prev == self.entry_stack): book.append('var_bubble.prev is not the entry stack')
        if not exited and not (cg.stack == var_bubble.cur): book.append('self.stack is not var_bubble.cur')
        self.add('BOOK', FAILED if book else DISCHARGED, t0, P['SIM'], {'message': '; '.join(book), 'formula': 'bubble bookkeeping of gen_stmts',
                 'replay': {'reproduced': True, 'how': 'observed on the value returned by the real method'}}, backend='harness')
        # pop the declared variables' bubble the way the enclosing CodeBlock would, so that the Tracker sees the whole construct
        self.finalize_headroom()
        eng, leaves = self.run_engine(lines)
        self.last_leaves = leaves
        extra_safety = []
        E = self.entry.regs

        def program(S):
            for s in stmts:
                S.exec_stmt(s)

        def compare(S, leaf, o):
            r = leaf.st.regs
            if o.kind == 'normal':
                # declared variables: their accessors read back the values the source semantics bound
                for name, val in S.newvars.items():
                    acc = cg.local_vars.get(name)
                    if acc is None:
                        raise SP.Mismatch(f'declared variable {name} is not in scope after the statements')
                    if isinstance(acc, ArrayRef) != isinstance(val, SP.ArrayVal):
                        raise SP.Mismatch(f'declared variable {name}: array reference expected iff the source declares an array')
                    if isinstance(acc, ArrayRef):
                        # an array variable is a reference: (length, origin) words in the frame denote the array the source semantics bound
                        ov, s1 = self.read_accessor(acc.origin, leaf); lv, s2 = self.read_accessor(acc.length, leaf)
                        extra_safety.extend(s1 + s2)
                        S.require_eq(ov, val.origin, f'origin of declared array {name}')
                        S.require_eq(lv, val.length, f'length of declared array {name}')
                        if (acc.section == asm.Section.CONST) != (val.section == 'const'):
                            raise SP.Mismatch(f'declared array {name}: storage section of the reference differs from where the array lives')
                        if acc.type.access == AccessMode.RW and not val.writable:
                            raise SP.Mismatch(f'declared array {name}: writable reference to a read-only array')
                        continue
                    decl_t = next((s_.var.type for s_ in stmts if isinstance(s_, ast.Declaration) and s_.var.name == name), None)
                    if decl_t is not None and isinstance(decl_t, DataType) and isinstance(acc, (asm.IndirectByte, asm.StateByte)) != bool(decl_t.byte_sized):
                        raise SP.Mismatch(f'declared variable {name} of type {decl_t} is bound to a {"byte" if isinstance(acc, (asm.IndirectByte, asm.StateByte)) else "word"}-sized slot')
                    v, saf = self.read_accessor(acc, leaf); extra_safety.extend(saf)
                    S.require_eq(v, val, f'value of declared variable {name}')
                for arr, nbytes, known in S.fresh_arrays:
                    if not known:
                        continue
                    nb = z3.simplify(nbytes)
                    esz = 1 if (arr.el_type == DataType.BOOL or arr.el_type.byte_sized) else self.w
                    for j in range(0, nb.as_long(), esz):
                        S.require_eq(S.load(leaf.st.mem, arr.origin + j, esz), S.load(S.mem, arr.origin + j, esz), f'element at byte {j} of a newly created array')
                if S.fresh_arrays:
                    S.require(r['ap'] == E['ap'] + S.alloc, 'ap is not advanced by exactly the size of the arrays the statements created')
                    self.allocating = True
                S.sync(leaf.st, 'at exit')
            elif o.kind == 'return':
                S.require_eq(leaf.tgt, self.ra_value(S), 'return target is the RA word of this activation')
                if o.value is not None:
                    t = [s for s in stmts if isinstance(s, ast.ReturnStatement)][0].value.type
                    size = self.size_of(t)
                    got = S.load(leaf.st.mem, E['fp'] - size, size)
                    S.require_eq(got, o.value, 'return value in callee slot 0')
                S.require(r['fp'] == E['fp'], 'fp changed at return')
                S.require(r['ap'] == self.ap_at_function_entry, 'return does not release every array of the activation (ap != ap at function entry)')
                S.require(r['defeat'] == self.func_defeat_value, 'defeat is not restored to the function\'s defeat at return')
                S.require(r['try_fp'] == E['try_fp'], 'try_fp changed')
                self.sync_ignoring_return_slot(S, leaf)
            elif o.kind in ('break', 'continue'):
                S.require(r['fp'] == E['fp'], f'fp changed at {o.kind}')
                S.require(r['ap'] == self.ap_at_loop_restore, f'{o.kind} does not release exactly the arrays allocated since the loop\'s restore point')
                S.require(r['defeat'] == self.loop_defeat_value, f'defeat is not restored to the loop\'s defeat at {o.kind}')
                S.sync(leaf.st, f'at {o.kind}')
        # (decided from the statements themselves, not from whether the simulation got far enough to see the allocation)
        self.allocating = any(isinstance(s_, ast.Declaration) and isinstance(s_.init, (ast.ArrayLiteral, ast.ArrayInitializer)) for s_ in stmts)
        self.simulate(leaves, program, compare, P['SIM'])
        # (when the statements create arrays, ap at exit is checked per leaf against the sizes the source semantics allocated, above)
        self.inv_at_exit([l for l in leaves if l.kind == 'exit' and l.tgt == '<end>'], P['INV'], ap_delta=self.expected_ap_delta, ap_check=not self.allocating)
        self.nobot(leaves, P['NOBOT'])
        if not self.unchecked:
            self.prove_all('SAFE', eng.safety + extra_safety, P['SAFE'])
        else:
            self.prove_all('CHILDPRE', [s for s in eng.safety if 'precondition' in s[1]], P['SIM'])
        self.cover(leaves, list(want_cover), P['SIM'])
        return self.results

    # ---- arrays ------------------------------------------------------------------------------------------------------------------
    def _word(self, mem, a):
        v = None
        for k in range(self.w):
            b = z3.Select(mem, a + k); self.ctx.facts += [b >= 0, b <= 255]
            v = b if v is None else v + (1 << (8 * k)) * b
        return v

    def array_bytes(self, el, length):
        if el == DataType.BOOL:
            return (length + 7) / 8
        return length * (1 if el.byte_sized else self.w)

    def array_var(self, name, el=DataType.INT, where='local', access=None, const=None):
        """an array variable in scope (I-arrays): `where` = local (reference in the frame) or glob (label + literal length).
        access: RW / R (state) / RC (const section)"""
        cg = self.cg; w = self.w; E = self.entry; c = self.ctx
        access = access or AccessMode.RW
        ctype = ConcreteArrayType(el, access)
        maxlen = ((1 << (self.bits - 1)) - 1) // (1 if el.byte_sized else w)
        if where == 'local':
            X = self.sym('XL' + name)            # length slot at X, origin slot at X + w  (reserve_type order)
            self.session.assume(X.z3() >= 2 * w); self.session.assume(X.z3() + w <= self.term(self.O))
            ref = ArrayRef(ctype, origin=asm.Indirect(asm.Section.STATE, asm.State(cg.fp), asm.IntLiteral(-(X + w))),
                           length=asm.Indirect(asm.Section.STATE, asm.State(cg.fp), asm.IntLiteral(-X)))
            cg.local_vars[name] = ref
            origin = self._word(E.mem, E.regs['fp'] - X.z3() - w); length = self._word(E.mem, E.regs['fp'] - X.z3())
        else:
            K = self.sym('N' + name, 0, maxlen)
            label = asm.LabelRef(('data_' if access == AccessMode.RC else 'var_') + name + '_0')
            ref = ArrayRef(ctype, label, asm.IntLiteral(K))
            cg.global_vars[name] = ref
            origin = c.label(label.label_name); length = K.z3()
        size = self.array_bytes(el, length)
        c.pre += [length >= 0, length <= maxlen]
        if access == AccessMode.RC:
            c.const_extents.append((origin, origin + size)); c.pre += [origin >= 0, origin + size < self.M // 2]
        else:
            c.extents.append((origin, origin + size))
            # a live stack array below ap, or a global / argument array above the stack
            c.pre += [z3.Or(z3.And(5 * w <= origin, origin + size <= E.regs['ap']), z3.And(c.stack_end <= origin, origin + size < self.M // 2))]
        is_const = (access != AccessMode.RW) if const is None else const
        var = ast.Variable(name, ArrayType(el, is_const), True)
        self.vars[name] = ('array', SP.ArrayVal(el, 'const' if access == AccessMode.RC else 'state', origin, length, access == AccessMode.RW), None, None)
        return ast.VariableLookup(var, SPAN)

    def array_value(self, S, var):
        return self.vars[var.name][1]

    def string_object(self, p):
        """I-strings: a string value points at a (length word, bytes) object inside const memory"""
        c = self.ctx
        ln = self._word(c.cmem, p)
        c.const_extents.append((p, p + self.w + ln))
        c.pre += [p >= 0, ln >= 0, ln < self.M // 2, p + self.w + ln < self.M // 2]
        return ln

    def string_operand(self, name, shape):
        S_ = DataType.STRING
        if shape == 'opaque':
            return AExpr(name, S_)            # the object invariant is attached when the child produces its value (child_sem)
        if shape == 'local':
            v = self.local(name, S_)
            a, size = self.var_address(v.var)
            self.string_object(self._word(self.entry.mem, a))
            return v
        if shape == 'literal':
            data = b'hello'
            lbl = self.cg.label_for_string(data)
            p = self.ctx.label(lbl.label_name)
            ln = self.string_object(p)
            self.ctx.pre.append(ln == len(data))        # string table entry: length word = len(data) (C13 emission contract)
            return ast.StringValue(data, SPAN)
        raise ValueError(shape)

    def alloc_base(self, S):
        """where the next stack array is allocated: the top of the array stack at entry (plus what this construct allocated before)"""
        return self.entry.regs['ap']

    def check_array_expr(self, e, r_out, P, want_cover=(('exit', '<end>'),)):
        """eval_expr on an expression that yields a *new* stack array (ArrayLiteral)"""
        cg = self.cg
        out = self.guarded_emit(lambda: cg.eval_expr(asm.LabelRef(r_out), e, True), P.get('NOERR', ('C10',)))
        if out is None:
            return self.results
        instrs, lines, bubble = out
        self.lines = lines
        t0 = time.time(); book = []
        if not isinstance(bubble.value, ArrayRef): book.append('result is not an array reference')
        if not (bubble.prev == self.entry_stack): book.append('bubble.prev is not the entry stack')
        if not (cg.stack == bubble.cur): book.append('self.stack is not bubble.cur')
        if bubble.cur.array_num != self.entry_stack.array_num + 1: book.append('array_num not incremented for a new array')
        if len(cg.allocated_arrays) != self.entry_stack.array_num + 1: book.append('allocated_arrays not extended')
        if isinstance(bubble.value, ArrayRef):
            # a stack array lives in the state section: its reference must say so (R when the literal is const, RW otherwise) -- the storage class
            # decides which library routine / load instruction every later use picks
            want_access = AccessMode.R if getattr(e.type, 'const', False) else AccessMode.RW
            if bubble.value.type.access != want_access:
                book.append(f'a stack array literal is tagged {bubble.value.type.access.name} (storage {bubble.value.section.name}), documented {want_access.name} (state section)')
        self.add('BOOK', FAILED if book else DISCHARGED, t0, P['SIM'], {'message': '; '.join(book), 'formula': 'bookkeeping of a freshly allocated array',
                 'replay': {'reproduced': True, 'how': 'observed on the value returned by the real method'}}, backend='harness')
        if book:
            return self.results
        self.finalize_headroom()
        eng, leaves = self.run_engine(lines)
        self.last_leaves = leaves
        extra = []
        E = self.entry.regs
        static = bubble.cur.static_array_size - self.entry_stack.static_array_size

        def compare(S, leaf, o):
            arr = o.value
            ov, s1 = self.read_accessor(bubble.value.origin, leaf); lv, s2 = self.read_accessor(bubble.value.length, leaf)
            extra.extend(s1 + s2)
            S.require_eq(ov, arr.origin, 'origin of the new array (must be the old top of the array stack)')
            S.require_eq(lv, arr.length, 'length of the new array')
            nbytes = self.array_bytes(arr.el_type, arr.length)
            S.require(leaf.st.regs['ap'] == E['ap'] + nbytes, 'ap is not advanced by exactly the size of the new array')
            S.require(self.term(static) == nbytes, 'static_array_size bookkeeping differs from the allocated size')
            # content, byte by byte (the literal has a concrete number of elements)
            n = z3.simplify(nbytes)
            if not z3.is_int_value(n):
                raise SP.Undecided('array size is not concrete')
            # element by element (an element is one store on both sides; bool arrays and byte arrays: byte by byte)
            esz = 1 if (arr.el_type == DataType.BOOL or arr.el_type.byte_sized) else self.w
            for j in range(0, n.as_long(), esz):
                S.require_eq(S.load(leaf.st.mem, arr.origin + j, esz), S.load(S.mem, arr.origin + j, esz), f'element at byte {j} of the new array')
            S.sync(leaf.st, 'at exit')
        self.simulate(leaves, lambda S: S.array_of(e), compare, P['SIM'])
        self.inv_at_exit([l for l in leaves if l.kind == 'exit'], P['INV'], ap_delta=self.term(static))
        self.nobot(leaves, P['NOBOT'])
        if not self.unchecked:
            self.prove_all('SAFE', eng.safety + extra, P['SAFE'])
        else:
            self.prove_all('CHILDPRE', [s for s in eng.safety if 'precondition' in s[1]], P['SIM'])
        self.cover(leaves, list(want_cover), P['SIM'])
        return self.results

    # ---- calls (call protocol, DESIGN section 8 C01) -----------------------------------------------------------------------------
    def install_callees(self, callees):
        """callees: label name -> dict(sizes=[bytes per argument slot], ret=DataType, defeat=bool)
        Callee contract (proved on the callee side by the gen_func lemma and the statement lemmas for `return`):
          on entry fp is the callee frame pointer, RA at [fp-w, fp), arguments below it in declaration order;
          it returns to RA with fp, ap, try_fp, defeat unchanged, the result in slot 0 (just below fp), every byte of the caller
          frames [fp, stack_end) unchanged; anything below fp, globals and arrays reachable by reference may have changed."""
        self.callees = dict(callees)
        self.ctx.external = self.call_contract

    def expected_label(self, e, vals):
        """the label the call protocol prescribes: label_for_func of the concrete signature (element type + storage of array arguments)"""
        from hidc.codegen.symbols import ConcreteSignature
        params = []
        for v in vals:
            if v[0] == 'array':
                arr = v[1]
                access = AccessMode.RC if arr.section == 'const' else (AccessMode.RW if arr.writable else AccessMode.R)
                params.append(ConcreteArrayType(arr.el_type, access))
            else:
                params.append(v[2])
        lbl = self.cg.func_labels.get(ConcreteSignature(e.func, tuple(params)))
        return lbl.label_name if lbl is not None else None

    def call_contract(self, engine, n, st, cond):
        if n not in getattr(self, 'callees', {}):
            return None
        spec = self.callees[n]
        c = self.ctx; w = self.w
        fp, ap = st.regs['fp'], st.regs['ap']
        implied = engine.implied_under(cond)
        ra = sem.load_word(c, st.mem, fp - w, w, implied)
        args = []; off = w
        for sz in spec['sizes']:
            off += sz
            args.append(sem.load_word(c, st.mem, fp - off, sz, implied))
        engine.safety.append((list(cond), f'call {n}: the RA word and the arguments lie between ap and the callee frame pointer', ap + off <= fp))
        engine.safety.append((list(cond), f'call {n}: the return address is the end_call label of this call site',
                              z3.Or(*[ra == c.label(l) for l in engine.labels if l.startswith('end_call')] or [z3.BoolVal(False)])))
        pre = st.copy()
        st2 = st.copy()
        for r in ('r0', 'r1', 'r2'):
            st2.regs[r] = c.fresh('hv_' + r)
        fresh_mem = c.fresh('m_' + n, 'mem')
        rt = spec.get('ret', DataType.EMPTY)
        rv = None; extra = []
        ev = CallEvent(n, args, None, pre, fresh_mem, fp, None, c, tuple(st.extents))
        st2.mem = ev.havoc(st.mem)
        if rt != DataType.EMPTY:
            rv = c.fresh('ret_' + n)
            from contracts import isa as _isa
            if rt == DataType.BOOL: extra.append(rv <= 1); _isa.set_maybits(rv, 1)
            elif rt == DataType.BYTE: extra.append(rv <= 255); _isa.set_maybits(rv, 0xFF)
            elif rt == DataType.STRING: self.string_object(rv)
            size = self.size_of(rt)
            st2.mem = sem.as_mem(st2.mem).store(fp - size, size, rv)
        ev.ret = rv
        st2.trace = st.trace + (('call', n, ev),)
        out = []
        # normal return: control continues at RA
        for l in engine.jump_value(ra, st2, cond + extra, 'ra'):
            out.append(l)
        def abnormal(kind):
            e2 = CallEvent(n, args, None, pre, fresh_mem, fp, kind, c, tuple(st.extents))
            s3 = st2.copy(); s3.trace = st.trace + (('call', n, e2),)
            return s3
        out.append(Leaf(list(cond), 'term', 'child', abnormal('term')))
        if spec.get('defeat'):
            if self.cg.effective_defeat == stdlib.halt:
                out.append(Leaf(list(cond), 'bot', None, abnormal('defeat')))
            else:
                s3 = abnormal('defeat'); s3.regs['fp'] = c.fresh('fp_d'); s3.regs['ap'] = c.fresh('ap_d')
                deep = [ap <= s3.regs['ap'], s3.regs['ap'] <= s3.regs['fp'], s3.regs['fp'] <= fp]
                out += engine.jump_value(s3.regs['defeat'], s3, list(cond) + deep, 'defeat')
        return out

    def sync_ignoring_return_slot(self, S, leaf):
        """at a return the value is written over the RA word (callee slot 0): that store is the protocol, not a side effect"""
        fp = self.entry.regs['fp']
        st = leaf.st.copy()
        st.stores = tuple(s for s in st.stores if not smt.prove(S.pre(), z3.And(s[0] >= fp - self.w, s[0] + s[1] <= fp)).verdict == smt.PROVED)
        S.sync(st, 'at return')
