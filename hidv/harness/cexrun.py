"""Replay of a solver counter-model on the real emitted text (concrete execution of the fragment).

When an obligation about a lemma fails, z3 gives a model: values for the symbolic compile-time integers (frame offset, slot offsets, literals),
the entry registers and memory, label addresses, and for everything each abstract child did (its value, the registers and memory it clobbered).
`replay(lemma, leaf, model)` substitutes the compile-time symbols into the text the *real* generator method emitted, executes that text on the
concrete VM (hidv.sphinx.svm.VM semantics; Turing jumps by backtracking) from the model's machine state, with every abstract child replaced by a
stub that does exactly what the model says the child did, and compares where the run ends (exit kind and target, named words, events, every
stored byte) with the symbolic leaf evaluated under the model.

  reproduced = True   the concrete run of the real method's output ends exactly as the symbolic leaf says: the state the obligation refutes is
                      a state the emitted code really reaches (the refuted formula is false there by the solver's model)
  reproduced = False  the concrete run disagrees with the symbolic leaf: engine discrepancy (reported as undecided by the driver: from_model)
  None                the fragment uses something the replay does not model (call contracts, time-travel continuations): no concrete replay
"""
from __future__ import annotations
import z3
from hidv.sphinx import svm, reader as R
from contracts import isa


class NoReplay(Exception):
    pass


class Mem:
    """concrete memory as a function with an overlay of written bytes"""
    def __init__(self, base):
        self.base = base; self.over = {}
    def get(self, a):
        v = self.over.get(a)
        return self.base(a) if v is None else v
    def put(self, a, v):
        self.over[a] = v & 0xFF
    def copy(self):
        m = Mem(self.base); m.over = dict(self.over); return m


class _Img:
    def __init__(self, vm):
        self.vm = vm
    def eval(self, e):
        vm = self.vm; k = e[0]
        if k == 'int': return e[1]
        if k == 'w': return e[1] * vm.W
        if k == 'lbl': return vm.label_value(e[1])
        if k == 'sym': return vm.sym_value(e[1])
        if k == 'argc': return vm.ev(vm.ctx.argc)
        if k == 'neg': return -self.eval(e[1])
        if k == 'add': return self.eval(e[1]) + self.eval(e[2])
        if k == 'sub': return self.eval(e[1]) - self.eval(e[2])
        if k == 'and': return (self.eval(e[1]) % vm.MOD) & (self.eval(e[2]) % vm.MOD)
        raise NoReplay(f'immediate {e!r}')


class FragVM(svm.VM):
    def __init__(self, lemma, lines, model, events_by_child, halting_exits=()):
        self.lemma = lemma; self.ctx = lemma.ctx; self.model = model
        c = self.ctx
        self.W = lemma.w; self.B = 8 * self.W; self.M = (1 << self.B) - 1; self.MOD = 1 << self.B
        prog = R.parse_lines(lines, section='code')
        self.code = []; self.frag_labels = {}
        for it in prog.items:
            if isinstance(it, R.Label): self.frag_labels[it.name] = len(self.code)
            elif isinstance(it, R.Ins): self.code.append(it)
        self.a = _Img(self)
        self.named = {n: self.MOD * 4 + i * self.W for i, n in enumerate(isa.NAMED_WORDS)}
        self.named_rev = {v: k for k, v in self.named.items()}
        self.regs = {n: self.ev(lemma.entry.regs[n]) for n in lemma.entry.regs}
        for n in isa.NAMED_WORDS:
            self.regs.setdefault(n, 0)
        self.mem = Mem(lambda a: self.ev(z3.Select(lemma.entry.mem, z3.IntVal(a))) & 0xFF)
        self.cmem = Mem(lambda a: self.ev(z3.Select(c.cmem, z3.IntVal(a))) & 0xFF)
        self.pc = 0; self.events = []; self.choices = []; self.steps = 0; self.oob = []; self.accesses = []; self.trace_accesses = False
        self.div = 'floor'; self.pc_escaped = None
        self.events_by_child = events_by_child        # ident -> [ChildEvent, ...] in the order the failing path met them
        self.child_count = {}
        self.stores = []                              # (addr, nbytes, value, pc) in execution order
        self.acc = []                                 # every memory access executed (kind, section, address, nbytes); rewound paths included
        self.halting_exits = set(halting_exits)
        self.end = None
        # reverse map of code label addresses (all_pre makes them distinct)
        self.addr_to_label = {}
        for name, t in c._lbl.items():
            self.addr_to_label.setdefault(self.ev(t), name)

    # ---- model access
    def ev(self, t):
        v = self.model.eval(t, model_completion=True)
        if z3.is_int_value(v): return v.as_long()
        if z3.is_true(v): return 1
        if z3.is_false(v): return 0
        raise NoReplay(f'model value of {t} is not concrete: {v}')

    def label_value(self, name):
        if name in self.named: return self.named[name]
        if name not in self.ctx._lbl:
            if name in self.frag_labels:          # a label of the fragment the symbolic run never needed the address of
                return self.MOD * 8 + self.frag_labels[name]
            raise NoReplay(f'label {name} has no value in the counter-model')
        return self.ev(self.ctx._lbl[name])

    def sym_value(self, n):
        return self.ev(self.ctx.syms[n])

    # ---- memory (named words are registers, as in the symbolic engine)
    def _reg(self, a):
        return self.named_rev.get(a)

    def ldw(self, a):
        r = self._reg(a)
        if r is not None: return self.regs[r]
        a &= self.M
        self.acc.append(('load', 'state', a, self.W))
        return sum(self.mem.get(a + k) << (8 * k) for k in range(self.W))

    def ldb(self, a):
        for base, r in self.named_rev.items():
            if base <= a < base + self.W: return (self.regs[r] >> (8 * (a - base))) & 0xFF
        self.acc.append(('load', 'state', a & self.M, 1))
        return self.mem.get(a & self.M)

    def ldcw(self, a):
        a &= self.M
        self.acc.append(('load', 'const', a, self.W))
        return sum(self.cmem.get(a + k) << (8 * k) for k in range(self.W))

    def ldcb(self, a):
        self.acc.append(('load', 'const', a & self.M, 1))
        return self.cmem.get(a & self.M)

    def stw(self, a, v):
        r = self._reg(a)
        if r is not None:
            self.regs[r] = v & self.M; return
        a &= self.M
        for k in range(self.W): self.mem.put(a + k, (v >> (8 * k)) & 0xFF)
        self.stores.append((a, self.W, v & self.M, self.pc))
        self.acc.append(('store', 'state', a, self.W))

    def stb(self, a, v):
        for base, r in self.named_rev.items():
            if base <= a < base + self.W:
                sh = 8 * (a - base)
                self.regs[r] = (self.regs[r] & ~(0xFF << sh) | ((v & 0xFF) << sh)) & self.M; return
        a &= self.M
        self.mem.put(a, v); self.stores.append((a, 1, v & 0xFF, self.pc)); self.acc.append(('store', 'state', a, 1))

    def dest(self, o):
        if o.kind != 'state':
            raise svm.VMError('destination is not a state word')
        return self.a.eval(o.expr)

    def val(self, o):
        if o.kind == 'imm': return self.a.eval(o.expr) & self.M
        if o.kind == 'state': return self.ldw(self.a.eval(o.expr))
        if o.kind == 'const': return self.ldcw(self.a.eval(o.expr))
        raise NoReplay(f'operand {o!r}')

    # ---- backtracking
    def snapshot(self):
        return (dict(self.regs), self.mem.copy(), len(self.events), dict(self.child_count), len(self.stores))

    def restore(self, snap):
        regs, mem, le, cc, ls = snap
        self.regs = regs; self.mem = mem; del self.events[le:]; self.child_count = cc; del self.stores[ls:]

    def resolve(self, tgt):
        return ('addr', tgt)

    # ---- children
    def child(self, n):
        evs = self.events_by_child.get(n)
        k = self.child_count.get(n, 0)
        if not evs or k >= len(evs):
            raise NoReplay(f'child {n} runs on a path the counter-model does not describe')
        ev = evs[k]; self.child_count[n] = k + 1
        if not hasattr(ev, 'post_regs'):
            raise NoReplay('child event without recorded post-state')
        lo = self.ev(ev.lo); hi = self.ev(self.ctx.stack_end)
        priv = [(self.ev(a), self.ev(b)) for a, b in ev.private]
        old = self.mem; fresh = ev.fresh_mem
        def after(a, old=old, fresh=fresh):
            if lo <= a < hi or any(x <= a < y for x, y in priv):
                return old.get(a)
            return self.ev(z3.Select(fresh, z3.IntVal(a))) & 0xFF
        self.mem = Mem(after)
        self.events.append(('child', n, ev.abnormal))
        if ev.abnormal is not None:
            return ev.abnormal
        for r, t in ev.post_regs.items():
            self.regs[r] = self.ev(t)
        if ev.post_store is not None:
            a, nb, v = ev.post_store
            a = self.ev(a); v = self.ev(v)
            for k_ in range(nb): self.mem.put(a + k_, (v >> (8 * k_)) & 0xFF)
        return None

    # ---- running the fragment
    def goto(self, tgt):
        """code address (or label name) -> continue in the fragment or leave it"""
        if isinstance(tgt, str):
            name = tgt
        elif tgt >= self.MOD * 8 and tgt - self.MOD * 8 <= len(self.code):
            self.pc = tgt - self.MOD * 8; return None
        else:
            name = self.addr_to_label.get(tgt)
        if name is not None and name in self.frag_labels:
            self.pc = self.frag_labels[name]; return None
        return ('exit', name if name is not None else tgt)

    def run_fragment(self, max_steps=20000):
        while self.steps < max_steps:
            if isinstance(self.pc, tuple):
                out = self.goto(self.pc[1])
                if out is not None:
                    return self.finish(out)
                continue
            if self.pc == len(self.code):
                return self.finish(('exit', '<end>'))
            ins = self.code[self.pc]
            if ins.op == 'opaque':
                ab = self.child(int(ins.args[0].expr))
                if ab is None:
                    self.pc += 1; continue
                if ab == 'term': return ('term', 'child')
                if ab == 'return': return ('child-return', None)
                if ab == 'defeat':
                    if not self._halt(): return ('bot', None)
                    continue
                raise NoReplay(f'child leaves by {ab}')
            if ins.op == 'j':
                o = ins.args[0]
                indirect = o.kind == 'state'
                tgt = o.expr[1] if (o.kind == 'imm' and o.expr[0] == 'lbl') else self.val(o)
                self.choices.append((tgt, self.snapshot()))
                self.last_jump = (indirect, tgt)
                self.pc += 1; self.steps += 1
                continue
            if ins.op == 'halt' and self.choices and getattr(self, 'last_jump', (False, 0))[0] and self.code[self.pc - 1].op == 'j':
                # `j [r]; halt`: an indirect jump (return / defeat word) leaves the fragment
                tgt, snap = self.choices.pop(); self.restore(snap)
                out = self.goto(tgt)
                if out is None: continue
                return self.finish(('ijump', tgt))
            if not self.step():
                return ('bot', None)
        raise NoReplay('step limit')

    def finish(self, out):
        kind, tgt = out
        if kind == 'exit' and tgt in isa.TERMINAL:
            for f in isa.TERMINAL[tgt]:
                self.events.append(('flag', f))
            return ('term', tgt)
        if (kind, tgt) in self.halting_exits:
            if self._halt():
                return self.run_fragment()
            return ('bot', None)
        return out


def events_of(leaf):
    """child events the failing path (and the halting paths rewound on the way) met, per child, in order"""
    by = {}
    seen = set()
    def walk(l):
        for e in l.st.trace:
            if e[0] == 'child' and id(e[2]) not in seen:
                seen.add(id(e[2])); by.setdefault(e[1].ident, []).append(e[2])
            elif e[0] == 'call':
                raise NoReplay('call contract on the path')
        for _, c_ in l.rewinds:
            walk(c_)
    walk(leaf)
    return by


def get_model(lemma, leaf, extra=()):
    s = z3.Solver(); s.set('timeout', 20000)
    s.add(*lemma.ctx.all_pre()); s.add(*leaf.cond); s.add(*extra)
    if s.check() != z3.sat:
        return None
    return s.model()


def replay(lemma, leaf, model=None, refuted=None):
    """returns a replay dict (see module docstring)"""
    try:
        if leaf.tag is not None:
            raise NoReplay('leaf under a halting-continuation assumption')
        if model is None:
            model = get_model(lemma, leaf, [z3.Not(refuted)] if refuted is not None else [])
            if model is None:
                raise NoReplay('no model')
        vm = FragVM(lemma, lemma.lines, model, events_of(leaf))
        out = vm.run_fragment()
        want = (leaf.kind, leaf.tgt if isinstance(leaf.tgt, (str, type(None))) else vm.ev(leaf.tgt))
        got = out if not (out[0] == 'exit' and not isinstance(out[1], str)) else out
        diffs = []
        if leaf.kind == 'exit':
            if got != ('exit', leaf.tgt): diffs.append(f'ends with {got}, symbolic leaf: exit {leaf.tgt}')
        elif leaf.kind == 'term':
            if got != ('term', leaf.tgt): diffs.append(f'ends with {got}, symbolic leaf: term {leaf.tgt}')
        elif leaf.kind == 'ijump':
            if got[0] != 'ijump' or got[1] != want[1]: diffs.append(f'ends with {got}, symbolic leaf: indirect jump to {want[1]}')
        elif leaf.kind in ('bot', 'child-return'):
            if got[0] != leaf.kind: diffs.append(f'ends with {got}, symbolic leaf: {leaf.kind}')
        else:
            raise NoReplay(f'leaf kind {leaf.kind}')
        if not diffs:
            for r in ('r0', 'r1', 'r2', 'ap', 'fp', 'try_fp', 'defeat'):
                if r in leaf.st.regs and leaf.kind != 'bot':
                    sv = vm.ev(leaf.st.regs[r]) % vm.MOD
                    if sv != vm.regs[r] % vm.MOD: diffs.append(f'{r} = {vm.regs[r]} on the VM, {sv} in the symbolic leaf')
            # events
            sym_ev = []
            for e in leaf.st.trace:
                if e[0] == 'child': sym_ev.append(('child', e[1].ident, e[2].abnormal))
                elif e[0] == 'out': sym_ev.append(('out', vm.ev(e[1]) & 0xFF))
                elif e[0] == 'flag': sym_ev.append(('flag', e[1]))
                elif e[0] == 'sleep': sym_ev.append(('sleep', vm.ev(e[1])))
            if sym_ev != vm.events: diffs.append(f'events {vm.events} on the VM, {sym_ev} in the symbolic leaf')
            # stored bytes: final memory at every address the symbolic path stored to (aliasing decided in the model)
            from hidv.sphinx import sem
            def in_model(f):
                return z3.is_true(model.eval(f, model_completion=True))
            for (a, n, v, text) in leaf.st.stores[-16:]:
                ca = vm.ev(a) % vm.MOD
                for k in range(n):
                    sym_b = vm.ev(sem.load_word(lemma.ctx, leaf.st.mem, z3.IntVal(ca + k), 1, in_model)) & 0xFF
                    if sym_b != vm.mem.get(ca + k):
                        diffs.append(f'memory byte {ca + k} is {vm.mem.get(ca + k)} on the VM, {sym_b} in the symbolic leaf (after `{text}`)'); break
        state = {'registers': {r: vm.regs[r] for r in ('r0', 'r1', 'r2', 'ap', 'fp', 'try_fp', 'defeat')},
                 'ends': [str(x) for x in out], 'events': [list(map(str, e)) for e in vm.events][:20],
                 'stores': [{'addr': a, 'bytes': n, 'value': v} for a, n, v, _ in vm.stores][-12:],
                 'entry': {r: vm.ev(lemma.entry.regs[r]) for r in lemma.entry.regs},
                 'compile_time_symbols': {str(k): vm.ev(v) for k, v in list(lemma.ctx.syms.items())[:12]}}
        return {'reproduced': not diffs, 'from_model': True,
                'how': 'the text emitted by the real generator method, executed on the concrete VM from the counter-model\'s machine state (children replaced by stubs doing what the model says)',
                'observed': state, 'disagreement_with_symbolic_leaf': diffs}
    except NoReplay as e:
        return {'reproduced': None, 'how': f'no concrete replay: {e}'}
    except (svm.VMError, R.AsmSyntaxError, KeyError, z3.Z3Exception) as e:
        return {'reproduced': None, 'how': f'no concrete replay: {type(e).__name__}: {e}'}


def replay_access(lemma, engine, formula, cond):
    """a refuted SAFE obligation: find a leaf of the emitted code that passes through the access, take a model of (path of that leaf and not safe),
    execute the emitted text concretely from it and confirm that the access really happens at the address the model gives, outside every region the
    code is entitled to at that point"""
    try:
        info = engine.access_of.get(id(formula))
        if info is None:
            return None
        kind, section, a, n, ap, fp, extents = info
        leaves = getattr(lemma, 'last_leaves', None) or []
        for leaf in leaves:
            if leaf.tag is not None or len(leaf.cond) < len(cond): continue
            if not all(x is y or x.eq(y) for x, y in zip(leaf.cond, cond)): continue
            model = get_model(lemma, leaf, [z3.Not(formula)])
            if model is None: continue
            vm = FragVM(lemma, lemma.lines, model, events_of(leaf))
            out = vm.run_fragment()
            addr = vm.ev(a) % vm.MOD
            hit = (kind, section, addr, n) in vm.acc
            regions = {}
            if section == 'state':
                regions['frame [ap, fp)'] = [vm.ev(ap), vm.ev(fp)]
                for i, (lo, hi) in enumerate(list(lemma.ctx.extents) + list(extents)): regions[f'extent {i}'] = [vm.ev(lo), vm.ev(hi)]
            else:
                for i, (lo, hi) in enumerate(lemma.ctx.const_extents): regions[f'const extent {i}'] = [vm.ev(lo), vm.ev(hi)]
            inside = any(lo <= addr and addr + n <= hi for lo, hi in regions.values())
            return {'reproduced': bool(hit and not inside), 'from_model': True,
                    'how': 'the text emitted by the real generator method, executed on the concrete VM from a counter-model of the refuted safety condition',
                    'observed': {'access': f'{kind} of {n} {section} byte(s) at address {addr}', 'entitled_regions': regions, 'executed': hit, 'ends': [str(x) for x in out],
                                 'entry': {r: vm.ev(lemma.entry.regs[r]) for r in lemma.entry.regs}}}
        return None
    except NoReplay as e:
        return {'reproduced': None, 'how': f'no concrete replay: {e}'}
    except (svm.VMError, R.AsmSyntaxError, KeyError, z3.Z3Exception) as e:
        return {'reproduced': None, 'how': f'no concrete replay: {type(e).__name__}: {e}'}
