"""Thin layer over the SMT back ends: z3 first, cvc5 (CLI, SMT-LIB2 export) on `unknown`."""
from __future__ import annotations
import subprocess, tempfile, os, time
import z3

Z3_TIMEOUT_MS = int(os.environ.get('HIDV_Z3_TIMEOUT_MS', '20000'))
CVC5_TIMEOUT_S = int(os.environ.get('HIDV_CVC5_TIMEOUT_S', '30'))

PROVED, CEX, UNKNOWN = 'proved', 'cex', 'unknown'
FAST_BV = False   # the machine is modelled over integers now (contracts/isa.py); QF_AUFBV would treat Int as uninterpreted


class Outcome:
    def __init__(self, verdict, model=None, backend='z3', reason='', time_s=0.0):
        self.verdict = verdict; self.model = model; self.backend = backend; self.reason = reason; self.time = time_s
    def __repr__(self):
        return f'<{self.verdict} by {self.backend} {self.time:.3f}s {self.reason}>'


def _cvc5_check(solver, extra, strings=False):
    """returns 'sat' / 'unsat' / 'unknown' using the cvc5 binary on z3's SMT-LIB2 export"""
    try:
        s2 = z3.Solver()
        s2.add(*solver.assertions()); s2.add(*extra)
        text = s2.to_smt2()
        if '(lambda' in text:
            return 'unknown', 'lambda in export'
        with tempfile.NamedTemporaryFile('w', suffix='.smt2', delete=False, dir=os.environ.get('TMPDIR', '/tmp')) as f:
            f.write('(set-logic ALL)\n' + text)
            path = f.name
        try:
            budget = int(os.environ.get('HIDV_CVC5_TIMEOUT_S', CVC5_TIMEOUT_S))
            args = ['/usr/bin/cvc5', '--lang', 'smt2', f'--tlimit={budget * 1000}']
            if strings:
                args.append('--strings-exp')
            p = subprocess.run(args + [path], capture_output=True, text=True, timeout=budget + 5)
            out = p.stdout.strip().splitlines()
            ans = out[0].strip() if out else 'unknown'
            return (ans if ans in ('sat', 'unsat') else 'unknown'), (p.stderr[-300:] or ans)
        finally:
            os.unlink(path)
    except Exception as e:  # noqa
        return 'unknown', f'cvc5 fallback failed: {e!r}'


def check(solver: z3.Solver, *extra, timeout_ms=None, strings=False):
    """sat/unsat/unknown with fallback; returns (answer, backend, reason, model|None)"""
    total = timeout_ms or int(os.environ.get('HIDV_Z3_TIMEOUT_MS', Z3_TIMEOUT_MS))
    # the same query is occasionally pathological for one random seed and instant for another (unstable queries): the z3 budget is split over
    # three attempts with different seeds (a short first one: almost every query takes milliseconds; then 1/4 and 1/2 of the budget) before the
    # other solver is asked
    reason = ''
    budgets = (min(1500, total // 4), total // 4, total // 2) if total >= 4000 else (total,)
    for attempt, budget in enumerate(budgets):
        s2 = solver if attempt == 0 else z3.Solver()
        if attempt:
            s2.add(*solver.assertions()); s2.set('random_seed', attempt); s2.set('smt.random_seed', attempt)
        s2.set('timeout', max(200, budget))
        s2.push()
        try:
            s2.add(*extra)
            r = s2.check()
            if r == z3.sat:
                return 'sat', 'z3', '', s2.model()
            if r == z3.unsat:
                return 'unsat', 'z3', '', None
            reason = s2.reason_unknown()
        finally:
            s2.pop()
        if 'timeout' not in reason and 'canceled' not in reason:
            break
    ans, why = _cvc5_check(solver, extra, strings)
    if ans == 'unknown':
        return 'unknown', 'z3+cvc5', f'z3: {reason}; cvc5: {why}', None
    return ans, 'cvc5', '', None


def prove(assumptions, goal, timeout_ms=None, strings=False) -> Outcome:
    """validity of (assumptions -> goal)"""
    t0 = time.time()
    ans = 'unknown'
    if FAST_BV and not strings:
        # the array/bit-vector fragment decides the glue lemmas about twice as fast; anything it cannot take
        # (Int2BV links of forked runs) falls through to the general solver
        try:
            s = z3.SolverFor('QF_AUFBV')
            s.set('timeout', timeout_ms or Z3_TIMEOUT_MS)
            s.add(*assumptions); s.add(z3.Not(goal))
            r = s.check()
            if r == z3.unsat:
                return Outcome(PROVED, None, 'z3', '', time.time() - t0)
            if r == z3.sat:
                return Outcome(CEX, s.model(), 'z3', '', time.time() - t0)
        except z3.Z3Exception:
            pass
    s = z3.Solver()
    s.add(*assumptions)
    ans, backend, reason, model = check(s, z3.Not(goal), timeout_ms=timeout_ms, strings=strings)
    dt = time.time() - t0
    if ans == 'unsat':
        return Outcome(PROVED, None, backend, reason, dt)
    if ans == 'sat':
        return Outcome(CEX, model, backend, reason, dt)
    return Outcome(UNKNOWN, None, backend, reason, dt)


def satisfiable(constraints, timeout_ms=None):
    """True / False / None(unknown)"""
    s = z3.Solver()
    s.add(*constraints)
    ans, *_ = check(s, timeout_ms=timeout_ms)
    return {'sat': True, 'unsat': False}.get(ans)


def model_to_json(model, limit=60):
    out = {}
    if model is None:
        return out
    for d in list(model.decls())[:limit]:
        try:
            v = model[d]
            if z3.is_bv_value(v) or z3.is_int_value(v):
                out[d.name()] = v.as_long()
            elif z3.is_true(v) or z3.is_false(v):
                out[d.name()] = z3.is_true(v)
            else:
                s = str(v)
                out[d.name()] = s if len(s) < 200 else s[:200] + '...'
        except Exception:
            pass
    return out
