"""Driver: ./check <PROP> [--tier quick|thorough] [--jobs N] [--list] [--only SUBSTR] [--replay FILE]

exit 0  every obligation of the property discharged (or failing only at listed known findings)
exit 1  an obligation fails that is not a listed finding: line `VIOLATION property=<id> replay=<path>`
exit 2  undecided (unknown/timeout/outside subset/replay disagreement/missing baseline obligation)
exit 3  the machinery crashed or produced no obligations
"""
from __future__ import annotations
import argparse, json, os, sys, time, fnmatch, subprocess, hashlib
from concurrent.futures import ProcessPoolExecutor, as_completed

ROOT = os.path.dirname(os.path.dirname(os.path.abspath(__file__)))
REPO = os.environ.get('HIDV_REPO', '/repo')
sys.path.insert(0, ROOT)
if REPO not in sys.path:
    sys.path.insert(0, REPO)
sys.dont_write_bytecode = True

from hidv import oblig  # noqa: E402
from hidv.oblig import DISCHARGED, FAILED, UNDECIDED, ERROR, BOUNDED_OK, BOUNDED_FAILED  # noqa: E402


def load_known():
    p = os.path.join(ROOT, 'known_findings.json')
    if not os.path.exists(p):
        return {'findings': [], 'fixed': []}
    return json.load(open(p))


def load_baseline():
    """{'__by_property__': {prop: {tier: {obligation: status}}}}; returns (raw, flat) where flat maps an obligation
    name to DISCHARGED/BOUNDED_OK if some recorded run on the unchanged tree discharged it"""
    p = os.path.join(ROOT, 'baseline_obligations.json')
    raw = json.load(open(p)) if os.path.exists(p) else {}
    flat = {}
    for tiers in raw.get('__by_property__', {}).values():
        for obs in tiers.values():
            for n, st in obs.items():
                if st in (DISCHARGED, BOUNDED_OK):
                    flat[n] = st
    return raw, flat


def known_match(known, prop, res):
    for k in known.get('findings', []):
        if k['property'] != prop:
            continue
        if not fnmatch.fnmatchcase(res.name, k['obligation']):
            continue
        return k
    return None


def repo_state():
    try:
        head = subprocess.run(['git', '-C', REPO, 'rev-parse', 'HEAD'], capture_output=True, text=True).stdout.strip()
        dirty = subprocess.run(['git', '-C', REPO, 'status', '--porcelain', '--', 'hidc'], capture_output=True, text=True).stdout.strip()
        return {'head': head, 'dirty_files': [l[3:] for l in dirty.splitlines()]}
    except Exception:
        return {}


def main(argv=None):
    ap = argparse.ArgumentParser()
    ap.add_argument('prop')
    ap.add_argument('--tier', default=os.environ.get('VERIF_TIER', 'quick'), choices=['quick', 'thorough'])
    ap.add_argument('--jobs', type=int, default=int(os.environ.get('HIDV_JOBS', '16')))
    ap.add_argument('--list', action='store_true')
    ap.add_argument('--only', default=None, help='run only tasks whose label contains this substring (debugging; no evidence written)')
    ap.add_argument('--replay', default=None, help='show a replay file and re-run its obligation')
    ap.add_argument('--update-baseline', action='store_true', help='(maintenance) record the statuses of this run in baseline_obligations.json')
    ap.add_argument('-v', action='store_true')
    args = ap.parse_args(argv)
    prop = args.prop
    seed = int(os.environ.get('VERIF_SEED', '0') or 0)
    os.environ['HIDV_SEED'] = str(seed)
    t0 = time.time()

    from contracts import registry
    if args.replay:
        rep = json.load(open(args.replay))
        print(json.dumps(rep, indent=1)[:6000])
        args.only = rep.get('task_label')
    tasks = [t for t in registry.all_tasks(args.tier) if prop in t.effective_props or prop == 'ALL']
    if args.only:
        tasks = [t for t in tasks if args.only in t.label]
    if args.list:
        for t in tasks:
            print(t.label, t.props)
        return 0
    if not tasks:
        print(f'no tasks for {prop}: vacuous run', file=sys.stderr)
        return 3
    tasks.sort(key=lambda t: -t.cost)
    results = []
    task_of = {}
    task_times = {}
    by_task = {}

    def run_round(todo, jobs, note=''):
        """one pool over `todo`; a worker that dies (z3 can segfault) breaks the pool: whatever did not finish is returned for another round"""
        from concurrent.futures.process import BrokenProcessPool
        unfinished = []
        if jobs <= 1 or len(todo) == 1 and not note:
            for t in todo:
                _t = time.time()
                by_task[t.label] = t.run()
                task_times[t.label] = round(time.time() - _t, 2)
            return unfinished
        with ProcessPoolExecutor(max_workers=min(jobs, len(todo))) as ex:
            futs = {ex.submit(oblig.run_task, t): t for t in todo}
            for f in as_completed(futs):
                t = futs[f]
                try:
                    rs, dt = f.result()
                    by_task[t.label] = rs
                    task_times[t.label] = round(task_times.get(t.label, 0) + dt, 2)
                    if args.v:
                        print(f'  done {t.label} {dt:.1f}s ({len(by_task)}/{len(tasks)}){note}', file=sys.stderr, flush=True)
                except BrokenProcessPool:
                    unfinished.append(t)
                except Exception as e:
                    by_task[t.label] = [oblig.Result(f'{t.label}/worker-died', ERROR, 'driver', 0.0, tuple(t.props), {'message': repr(e)})]
        return unfinished

    todo = list(tasks)
    for rnd in range(3):
        todo = run_round(todo, args.jobs, '' if rnd == 0 else f' [round {rnd + 1} after a worker died]')
        if not todo:
            break
        print(f'  a worker process died; {len(todo)} task(s) are run again', file=sys.stderr, flush=True)
    for t in todo:
        # still unfinished after three rounds: one pool per task isolates the one that kills its worker
        left = run_round([t], 2, ' [isolated]')
        if left:
            by_task[t.label] = [oblig.Result(f'{t.label}/worker-died', ERROR, 'driver', 0.0, tuple(t.props),
                                             {'message': 'the worker process running this task died three times (solver crash)'})]
    # obligations a solver left undecided (timeouts are load dependent): those tasks are run once more with twice the solver budget
    def n_undecided(t):
        return sum(1 for r in by_task.get(t.label, []) if r.status == UNDECIDED and 'z3:' in str(r.detail.get('message', '')))
    # (a task with many undecided obligations is beyond the solvers, not unlucky: it is not run again)
    retry = [t for t in tasks if 0 < n_undecided(t) <= 6]
    if retry and not os.environ.get('HIDV_NO_RETRY'):
        old_budget = os.environ.get('HIDV_Z3_TIMEOUT_MS'), os.environ.get('HIDV_CVC5_TIMEOUT_S')
        os.environ['HIDV_Z3_TIMEOUT_MS'] = str(2 * int(old_budget[0] or 20000)); os.environ['HIDV_CVC5_TIMEOUT_S'] = str(2 * int(old_budget[1] or 30))
        if args.v:
            print(f'  {len(retry)} task(s) with undecided obligations are run again with a larger solver budget', file=sys.stderr, flush=True)
        before = {t.label: by_task[t.label] for t in retry}
        left = run_round(retry, max(2, args.jobs // 2), ' [retry]')
        for t in left:
            by_task[t.label] = before[t.label]
        for k, v in zip(('HIDV_Z3_TIMEOUT_MS', 'HIDV_CVC5_TIMEOUT_S'), old_budget):
            if v is None: os.environ.pop(k, None)
            else: os.environ[k] = v
    for t in tasks:
        for r in by_task.get(t.label, []):
            task_of[r.name] = t.label
            results.append(r)
    # restrict to obligations that serve this property
    if prop != 'ALL':
        results = [r for r in results if prop in r.props]
    results.sort(key=lambda r: r.name)
    wall = time.time() - t0

    known = load_known()
    baseline_raw, baseline = load_baseline()
    viol, known_hits, undec, errs = [], [], [], []
    for r in results:
        if r.status in (FAILED, BOUNDED_FAILED):
            k = known_match(known, prop, r) if prop != 'ALL' else next((m for m in (known_match(known, P, r) for P in r.props) if m), None)
            if k:
                known_hits.append((r, k)); continue
            rep = r.detail.get('replay') or {}
            if rep.get('reproduced') is True:
                viol.append((r, True))
            elif rep.get('reproduced') is False and rep.get('from_model'):
                # the solver's own model, replayed on the real code, does not show the violation: engine discrepancy -> undecided
                undec.append(r)
            else:
                # no concrete failing input available: only a violation if this obligation is known to
                # have been discharged on the unchanged tree
                if baseline.get(r.name) in (DISCHARGED, BOUNDED_OK) or rep.get('trust_solver'):
                    viol.append((r, False))
                else:
                    undec.append(r)
        elif r.status == UNDECIDED:
            undec.append(r)
        elif r.status == ERROR:
            errs.append(r)
    names = {r.name for r in results}
    missing = []
    base_prop = baseline_raw.get('__by_property__', {}).get(prop, {}) if prop != 'ALL' else {}
    if base_prop and not args.only:
        missing = sorted(n for n in base_prop.get(args.tier, {}) if n not in names)
    # evidence
    n_proof = [r for r in results if r.status in (DISCHARGED, FAILED, UNDECIDED, ERROR)]
    n_dis = [r for r in results if r.status == DISCHARGED]
    n_bounded = [r for r in results if r.status in (BOUNDED_OK, BOUNDED_FAILED)]
    by_backend = {}
    for r in results:
        b = by_backend.setdefault(r.backend, {'obligations': 0, 'discharged': 0, 'solver_s': 0.0})
        b['obligations'] += 1; b['solver_s'] = round(b['solver_s'] + r.time, 3)
        if r.status == DISCHARGED:
            b['discharged'] += 1
    funcs = sorted({f for r in results for f in r.detail.get('functions', [])})
    samples = []
    for r in results[:: max(1, len(results) // 8)][:8]:
        samples.append({'obligation': r.name, 'status': r.status, 'backend': r.backend, 'time_s': round(r.time, 4),
                        'statement': str(r.detail.get('formula', ''))[:400]})
    from contracts import trusted
    kf_names = {r.name for r, _ in known_hits}
    proof_obl = [r for r in n_proof if r.name not in kf_names]
    ev = {
        'property_id': prop, 'tier': args.tier, 'seed': seed, 'level': 'proof',
        'coverage': {
            'obligations': len(proof_obl),
            'discharged': len([r for r in proof_obl if r.status == DISCHARGED]),
            'checker_cmd': f'./check {prop} --tier {args.tier}',
            'trusted_base': trusted.for_property(prop),
            'by_backend': by_backend,
            'functions_under_contract': funcs,
            'known_finding_obligations': sorted(kf_names),
            'bounded_standins': [{'obligation': r.name, 'status': r.status, 'bound': r.detail.get('bound', ''), 'backend': r.backend}
                                 for r in n_bounded],
            'undecided': [r.name for r in undec], 'errors': [r.name for r in errs],
            'missing_vs_baseline': missing,
            'samples': samples,
            'exhaustive': False,
            'enum_domains': {r.name: r.detail['domain'] for r in results if r.backend.startswith('enum') and 'domain' in r.detail},
            'extraction_drops': trusted.EXTRACTION_DROPS,
            'assumption_scan': trusted.assumption_scan(),
            'solver_seconds_total': round(sum(r.time for r in results), 3),
            'repo': repo_state(),
            'tasks': len(tasks),
            'slowest_tasks_s': dict(sorted(task_times.items(), key=lambda kv: -kv[1])[:8]),
        },
        'assumptions': trusted.assumptions_for(prop),
        'wall_s': round(wall, 3),
        'violations': len(viol),
    }
    if not args.only and prop != 'ALL':
        os.makedirs(os.path.join(ROOT, 'evidence'), exist_ok=True)
        with open(os.path.join(ROOT, 'evidence', f'{prop}.json'), 'w') as f:
            json.dump(ev, f, indent=1, default=str)
        with open(os.path.join(ROOT, 'evidence', f'{prop}.obligations.txt'), 'w') as f:
            for r in results:
                f.write(f'{r.status:12} {r.backend:14} {r.time:8.3f}s  {r.name}\n')
    # output
    for r, k in known_hits:
        print(f"KNOWN-FINDING: property={prop} {r.name}: {k['what']}")
    code = 0
    for r, reproduced in viol:
        d = os.path.join(ROOT, 'replays', prop)
        os.makedirs(d, exist_ok=True)
        path = os.path.join(d, oblig.sanitize(r.name) + '.json')
        with open(path, 'w') as f:
            json.dump({'property': prop, 'obligation': r.name, 'task_label': task_of.get(r.name), 'backend': r.backend,
                       'status': r.status, 'reproduced_on_real_code': reproduced, 'detail': r.detail,
                       'rerun': f'./check {prop} --replay {path}'}, f, indent=1, default=str)
        tail = '' if reproduced else ' no-failing-input-found'
        print(f'VIOLATION property={prop} replay={path}{tail}')
        code = 1
    if args.v or code or undec or errs:
        for r in undec:
            print(f'UNDECIDED {r.name}: {str(r.detail.get("message", ""))[:300]}', file=sys.stderr)
        for r in errs:
            print(f'ERROR {r.name}: {str(r.detail.get("message", ""))[-1500:]}', file=sys.stderr)
    for n in missing:
        print(f'MISSING-OBLIGATION {n} (in baseline, not generated by this run)', file=sys.stderr)
    print(f'[{prop} {args.tier}] obligations={len(proof_obl)} discharged={ev["coverage"]["discharged"]} '
          f'known={len(known_hits)} bounded={len(n_bounded)} violations={len(viol)} undecided={len(undec)} errors={len(errs)} '
          f'missing={len(missing)} wall={wall:.1f}s')
    if args.update_baseline and not args.only:
        b = {'__by_property__': load_baseline()[0].get('__by_property__', {})}
        # ALL: one run of every task, recorded under every property each obligation serves
        for P in (sorted({p for r in results for p in r.props}) if prop == 'ALL' else [prop]):
            b['__by_property__'].setdefault(P, {})[args.tier] = {r.name: r.status for r in results if P in r.props}
        with open(os.path.join(ROOT, 'baseline_obligations.json'), 'w') as f:
            json.dump(b, f, indent=0, sort_keys=True)
    if code:
        return 1
    if errs:
        return 3
    if undec or missing:
        return 2
    if not proof_obl and not n_bounded:
        return 3
    return 0


if __name__ == '__main__':
    sys.exit(main())
