# scratch concrete Sphinx VM (assumed ISA semantics) for confirming suspected defects
import re, sys
class Halted(Exception): pass

def unescape(body):
    out=bytearray(); i=0
    while i<len(body):
        c=body[i]
        if c==0x5c:
            n=body[i+1:i+2]
            if n==b'x': out.append(int(body[i+2:i+4],16)); i+=4
            else:
                m={b'n':10,b'r':13,b't':9,b'0':0,b'\\':0x5c,b'"':0x22,b"'":0x27}
                if n not in m: raise ValueError('bad escape %r'%body[i:i+2])
                out.append(m[n]); i+=2
        else: out.append(c); i+=1
    return bytes(out)

TOK=re.compile(rb"\s*(?:(0x[0-9a-fA-F]+|\d+)(w?)|('(?:\\.[0-9a-fA-F]{0,2}|[^\\'])')|(\$?[A-Za-z_][A-Za-z_0-9]*)|([-+&()*]))")
class Asm:
    def __init__(self, lines, args=()):
        self.W=2; self.args=list(args)
        self.state=bytearray(); self.const=bytearray(); self.code=[]
        self.labels={}; self.fix=[]  # (section, offset, size, expr)
        self.argv=[]; sec=None
        self.argdefs=[]
        for raw in lines:
            line=raw.strip()
            if not line or line.startswith(b';'): continue
            if line.startswith(b'%'):
                p=line.split()
                if p[0]==b'%argv': self.argv=p[1:]
                elif p[0]==b'%format' and p[1]==b'word': self.W=int(p[2])
                elif p[0]==b'%section': sec=p[1].decode()
                continue
            m=re.match(rb'([A-Za-z_][A-Za-z_0-9]*):\s*(.*)$', line)
            if m:
                name=m.group(1).decode()
                pos={'state':len(self.state),'const':len(self.const),'code':len(self.code)}[sec]
                assert name not in self.labels, name
                self.labels[name]=pos
                line=m.group(2).strip()
                if not line or line.startswith(b';'): continue
            if sec=='code':
                op,_,rest=line.partition(b' ')
                self.code.append((op.decode(), self.split_args(rest)))
            else:
                buf=self.state if sec=='state' else self.const
                d,_,rest=line.partition(b' ')
                if d==b'.word':
                    for e in self.split_args(rest):
                        self.fix.append((buf,len(buf),self.W,e)); buf.extend(bytes(self.W))
                elif d==b'.byte':
                    for e in self.split_args(rest):
                        self.fix.append((buf,len(buf),1,e)); buf.extend(bytes(1))
                elif d==b'.zero':
                    self.fix.append(('zero',buf,len(buf),rest)); 
                    n=self.evalx(rest); buf.extend(bytes(n))
                elif d==b'.ascii':
                    s=rest.strip(); assert s[:1]==b'"' and s[-1:]==b'"'
                    buf.extend(unescape(s[1:-1]))
                elif d==b'.arg':
                    p=rest.split(); self.emit_arg(buf, p[0].decode(), p[1].decode(), [x.decode() for x in p[2:]])
                else: raise ValueError(line)
        for f in self.fix:
            if f[0]=='zero': continue
            buf,off,size,e=f
            v=self.evalx(e)&((1<<(8*size))-1)
            buf[off:off+size]=v.to_bytes(size,'little')
    def argval(self, name):
        specs=[x.decode() for x in self.argv]
        vi=[i for i,x in enumerate(specs) if x.startswith('[')]
        if not vi:
            return self.args[[x[1:-1] for x in specs].index(name)]
        v=vi[0]; before=specs[:v]; after=specs[v+1:]
        for i,x in enumerate(before):
            if x[1:-1]==name: return self.args[i]
        for i,x in enumerate(after):
            if x[1:-1]==name: return self.args[len(self.args)-len(after)+i]
        assert specs[v][2:-5]==name, (name,specs)
        return self.args[len(before):len(self.args)-len(after)]
    @property
    def argc_var(self):
        npos=sum(1 for s in self.argv if not s.startswith(b'['))
        return len(self.args)-npos
    def emit_arg(self, buf, name, fmt, params):
        v=self.argval(name)
        vs=v if isinstance(v,list) else [v]
        if fmt in('byte','word'):
            size=1 if fmt=='byte' else self.W
            for x in vs: buf.extend((int(x)&((1<<(8*size))-1)).to_bytes(size,'little'))
        elif fmt=='asciip':
            if 'array' in params:
                # table of pointers followed by strings
                base=len(buf)+self.W*len(vs); ptrs=[]; blob=bytearray()
                for x in vs:
                    ptrs.append(base+len(blob)); b=x.encode(); blob+=len(b).to_bytes(self.W,'little')+b
                for p in ptrs: buf.extend(p.to_bytes(self.W,'little'))
                buf.extend(blob)
            else:
                b=vs[0].encode(); buf.extend(len(b).to_bytes(self.W,'little')+b)
    def split_args(self, rest):
        out=[];cur=b'';q=False;i=0
        while i<len(rest):
            c=rest[i:i+1]
            if c==b"'" :
                j=i+1
                if rest[j:j+1]==b'\\': j+=2 if rest[j+1:j+2]!=b'x' else 4
                else: j+=1
                cur+=rest[i:j+1]; i=j+1; continue
            if c==b',': out.append(cur.strip()); cur=b''
            elif c==b';': break
            else: cur+=c
            i+=1
        if cur.strip(): out.append(cur.strip())
        return out
    def evalx(self, e):
        toks=[]; pos=0; e=e.strip()
        while pos<len(e):
            m=TOK.match(e,pos)
            if not m: raise ValueError('bad expr %r at %d'%(e,pos))
            pos=m.end()
            if m.group(1) is not None:
                v=int(m.group(1),0); 
                if m.group(2): v*=self.W
                toks.append(v)
            elif m.group(3) is not None: toks.append(unescape(m.group(3)[1:-1])[0])
            elif m.group(4) is not None:
                n=m.group(4).decode()
                if n=='$argc': toks.append(len(self.args))
                else: toks.append(self.labels[n])
            else: toks.append(m.group(5).decode())
        # precedence: unary -, then * , then + -, then &
        self._t=toks; self._i=0
        v=self._and(); assert self._i==len(toks), (e,toks)
        return v
    def _peek(self): return self._t[self._i] if self._i<len(self._t) else None
    def _and(self):
        v=self._sum()
        while self._peek()=='&': self._i+=1; v&=self._sum()
        return v
    def _sum(self):
        v=self._un()
        while self._peek() in('+','-'):
            o=self._peek(); self._i+=1; r=self._un(); v=v+r if o=='+' else v-r
        return v
    def _un(self):
        t=self._peek()
        if t=='-': self._i+=1; return -self._un()
        if t=='(':
            self._i+=1; v=self._and(); assert self._peek()==')'; self._i+=1; return v
        self._i+=1; assert isinstance(t,int),(t,self._t); return t

class VM:
    def __init__(self, lines, args=(), div='floor'):
        a=Asm(lines,args); self.a=a; self.W=a.W; self.B=8*a.W; self.M=(1<<self.B)-1
        self.mem=bytearray(a.state); self.const=bytes(a.const); self.code=a.code; self.L=a.labels
        self.pc=a.labels.get('func_is_you_0',0) if False else 0
        # entry: first instruction of code section
        self.out=bytearray(); self.flags=[]; self.events=[]
        self.choices=[]  # (pc_target, mem snapshot, len(out), len(flags), len(events))
        self.div=div; self.steps=0; self.oob=[]
    def sx(self,v): v&=self.M; return v-(1<<self.B) if v>>(self.B-1) else v
    def operand(self,e):
        e=e.strip()
        if e[:1]==b'[' and e[-1:]==b']': return self.ldw(self.a.evalx(e[1:-1]))
        if e[:1]==b'{' and e[-1:]==b'}': return self.ldc(self.a.evalx(e[1:-1]))
        return self.a.evalx(e)&self.M
    def chk(self,a,n,kind):
        if a<0 or a+n>len(self.mem): self.oob.append((kind,a,self.pc)); return False
        return True
    def ldw(self,a):
        a&=self.M
        if not self.chk(a,self.W,'ldw'): return 0
        return int.from_bytes(self.mem[a:a+self.W],'little')
    def ldb(self,a):
        a&=self.M
        if not self.chk(a,1,'ldb'): return 0
        return self.mem[a]
    def ldc(self,a):
        a&=self.M
        if a+self.W>len(self.const): self.oob.append(('ldc',a,self.pc)); return 0
        return int.from_bytes(self.const[a:a+self.W],'little')
    def ldcb(self,a):
        a&=self.M
        if a>=len(self.const): self.oob.append(('ldcb',a,self.pc)); return 0
        return self.const[a]
    def stw(self,a,v):
        a&=self.M
        if self.chk(a,self.W,'stw'): self.mem[a:a+self.W]=(v&self.M).to_bytes(self.W,'little'); self.writes.append((a,self.W))
    def stb(self,a,v):
        a&=self.M
        if self.chk(a,1,'stb'): self.mem[a]=v&0xFF; self.writes.append((a,1))
    writes=[]
    def dest(self,e):
        e=e.strip(); assert e[:1]==b'[' , e
        return self.a.evalx(e[1:-1])
    def step(self):
        """returns False if (really) halted"""
        if self.pc>=len(self.code): raise RuntimeError('pc ran off code at %d'%self.pc)
        op,args=self.code[self.pc]; self.steps+=1
        nxt=self.pc+1
        def halt():
            if not self.choices: return False
            tgt,mem,lo,lf,le=self.choices.pop()
            self.mem=mem; del self.out[lo:]; del self.flags[lf:]; del self.events[le:]
            self.pc=tgt; return True
        if op=='halt': return halt()
        if op[0]=='h' and op!='halt':
            l=self.operand(args[0]); r=self.operand(args[1]); u=op.endswith('u') and op not in('hltu'[:0],)
            c=op[1:]
            uns=c.endswith('u') and c not in ('',)
            if uns: c=c[:-1]; a,b=l,r
            else: a,b=self.sx(l),self.sx(r)
            t={'eq':a==b,'ne':a!=b,'lt':a<b,'le':a<=b,'gt':a>b,'ge':a>=b}[c]
            if t: return halt()
        elif op=='j':
            tgt=self.operand(args[0])
            self.choices.append((tgt,bytearray(self.mem),len(self.out),len(self.flags),len(self.events)))
        elif op in('add','sub','mul','div','mod','and','or','xor','asl','asr'):
            d=self.dest(args[0]); a=self.operand(args[1]); b=self.operand(args[2])
            sa,sb=self.sx(a),self.sx(b)
            if op=='add': v=a+b
            elif op=='sub': v=a-b
            elif op=='mul': v=sa*sb
            elif op in('div','mod'):
                if sb==0: raise ZeroDivisionError('vm div by zero at pc %d'%self.pc)
                if self.div=='floor': v= sa//sb if op=='div' else sa%sb
                else:
                    q=abs(sa)//abs(sb); q=q if (sa<0)==(sb<0) else -q
                    v=q if op=='div' else sa-q*sb
            elif op=='and': v=a&b
            elif op=='or': v=a|b
            elif op=='xor': v=a^b
            elif op=='asl': v=a<<(b if b<self.B else self.B)
            elif op=='asr': v=sa>>(b if b<self.B else self.B)
            self.stw(d,v)
        elif op=='mov': self.stw(self.dest(args[0]), self.operand(args[1]))
        elif op=='lws': self.stw(self.dest(args[0]), self.ldw(self.operand(args[1])))
        elif op=='lwc': self.stw(self.dest(args[0]), self.ldc(self.operand(args[1])))
        elif op=='lbs': self.stw(self.dest(args[0]), self.ldb(self.operand(args[1])))
        elif op=='lbc': self.stw(self.dest(args[0]), self.ldcb(self.operand(args[1])))
        elif op=='lwso': self.stw(self.dest(args[0]), self.ldw(self.operand(args[1])+self.operand(args[2])))
        elif op=='lwco': self.stw(self.dest(args[0]), self.ldc(self.operand(args[1])+self.operand(args[2])))
        elif op=='lbso': self.stw(self.dest(args[0]), self.ldb(self.operand(args[1])+self.operand(args[2])))
        elif op=='lbco': self.stw(self.dest(args[0]), self.ldcb(self.operand(args[1])+self.operand(args[2])))
        elif op=='sws': self.stw(self.operand(args[0]), self.operand(args[1]))
        elif op=='sbs': self.stb(self.operand(args[0]), self.operand(args[1]))
        elif op=='swso': self.stw(self.operand(args[0])+self.operand(args[1]), self.operand(args[2]))
        elif op=='sbso': self.stb(self.operand(args[0])+self.operand(args[1]), self.operand(args[2]))
        elif op=='yield': v=self.operand(args[0]); self.out.append(v&0xFF); self.events.append(('out',v&0xFF))
        elif op=='sleep': self.events.append(('sleep',self.operand(args[0])))
        elif op=='flag': self.flags.append(args[0].decode()); self.events.append(('flag',args[0].decode()))
        else: raise ValueError(op)
        self.pc=nxt
        return True
    def run(self, max_steps=2_000_000):
        """run until real halt, or terminal flag (win/error) reached and tnt loop entered; returns outcome"""
        seen=None
        while self.steps<max_steps:
            if self.flags and self.flags[-1] in('win','error') and self.code[self.pc][0]=='sleep':
                # in terminal loop: pending choices stay not-jump forever -> committed
                return self.flags[-1]
            if not self.step(): return 'HALT'
        return 'TIMEOUT'

if __name__=='__main__':
    sys.path.insert(0,'/repo')
    from t1 import comp
