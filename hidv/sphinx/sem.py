"""Engine B: bottom-collapsing symbolic semantics of rendered Sphinx text (DESIGN.md section 4).

For a fragment (list of reader items of the code section) and a symbolic entry state the engine computes the finite set
of *leaves*.  `j X; rest` is evaluated as  rest |> X : the fall-through is explored first; each of its leaves that
reached a halt (kind 'bot') is replaced by a run of X *from the state saved at the jump*.

Leaf kinds:  'exit' (left through an external label / fell off the end), 'ijump' (indirect jump to a run-time value
that is not one of the fragment's own labels), 'term' (terminal stub reached; flags appended to the trace), 'bot'.
"""
from __future__ import annotations
import dataclasses as dc
import z3
from . import reader as R
from contracts import isa
from hidv import smt


class EngineError(Exception):
    pass


@dc.dataclass
class State:
    regs: dict          # named word -> BV
    mem: object         # Array BV(bits) -> BV8   (state section minus named words)
    trace: tuple = ()   # ghost trace
    extents: tuple = () # dynamically created entitled state extents (lo, hi) : arrays allocated by this fragment
    stores: tuple = ()  # every store the fragment itself executed, in order: (addr, nbytes, value, text)
    def copy(self):
        return State(dict(self.regs), self.mem, self.trace, self.extents, self.stores)


class SymMem:
    """state memory as a persistent list of layers over a base array:  store(addr, nbytes, value)  |  havoc(event)
    Loads walk the layers with cheap aliasing queries (read-over-write elimination) so that terms stay small; only when
    aliasing is undecided does a load fall back to the full array term."""
    __slots__ = ('parent', 'kind', 'payload', '_z3')

    def __init__(self, parent=None, kind='base', payload=None):
        self.parent = parent; self.kind = kind; self.payload = payload; self._z3 = None

    @staticmethod
    def base(arr):
        return SymMem(None, 'base', arr)

    def store(self, a, n, v):
        return SymMem(self, 'store', (a, n, v))

    def havoc(self, ev):
        return SymMem(self, 'havoc', ev)

    def z3(self):
        if self._z3 is None:
            if self.kind == 'base':
                self._z3 = self.payload
            elif self.kind == 'store':
                a, n, v = self.payload
                m = self.parent.z3()
                for i in range(n):
                    m = z3.Store(m, a + i, (v / (1 << (8 * i))) % 256)
                self._z3 = m
            else:
                self._z3 = self.payload.havoc_z3(self.parent.z3())
        return self._z3


def as_mem(m):
    return m if isinstance(m, SymMem) else SymMem.base(m)


def _compose(ctx, arr, a, n):
    v = None
    for i in range(n):
        b = z3.Select(arr, a + i)
        ctx.facts += [b >= 0, b <= 255]             # invariant: memory cells hold bytes (stores reduce mod 256)
        isa.set_maybits(b, 0xFF)
        v = b if v is None else v + (1 << (8 * i)) * b
    return v


def load_word(ctx, mem, a, n, implied):
    """n-byte little-endian load at address a (zero-extended)"""
    if not isinstance(mem, SymMem):
        return _compose(ctx, mem, a, n)
    a_s = z3.simplify(a)
    m = mem
    while m.kind != 'base':
        if m.kind == 'store':
            ai, ni, vi = m.payload
            if ni == n and z3.eq(z3.simplify(ai), a_s):
                if n == ctx.W:
                    return vi                      # engine values are reduced words
                mask = (1 << (8 * n)) - 1
                mv = isa.maybits(vi, ctx.M - 1)
                if mv <= mask:
                    return vi                      # the stored value fits: no truncation
                r = vi % (1 << (8 * n))
                isa.set_maybits(r, mv & mask)
                return r
            if implied(z3.Or(ai + ni <= a, a + n <= ai)):
                m = m.parent; continue
            if ni == n and implied(ai == a):
                return vi if n == ctx.W else vi % (1 << (8 * n))
            break
        else:
            ev = m.payload
            if implied(ev.protects(a, n)):
                m = m.parent; continue
            if implied(ev.exposes(a, n)):
                return _compose(ctx, ev.fresh_mem, a, n)
            break
    return _compose(ctx, m.z3(), a, n)


@dc.dataclass
class Leaf:
    cond: list
    kind: str
    tgt: object
    st: State
    tag: object = None      # ('assumed-bot', exit-leaf) when reached by taking a jump under the assumption that an exit halts
    hvar: object = None     # Bool: "the continuation of this exit halts" (already split on: cond contains Not(hvar))
    rewinds: tuple = ()     # ((jump pc, the bot Leaf that caused the jump to be taken), ...)
    def with_(self, **kw):
        return dc.replace(self, **kw)


class Ctx:
    """static context of one lemma"""
    def __init__(self, W, syms=None, children=None, child_sem=None, interpret=(), halting_cont=True, cut_labels=(),
                 extents=(), const_extents=(), code_labels=(), pre=()):
        self.W = W; self.BITS = 8 * W
        self.syms = syms or {}
        self.children = children or {}
        self.child_sem = child_sem
        self.interpret = set(interpret)
        self.halting_cont = halting_cont
        self.cut_labels = set(cut_labels)
        self.extents = list(extents)             # (lo, hi) BV terms: entitled state extents (globals, live arrays)
        self.const_extents = list(const_extents)
        self.pre = list(pre)
        self._lbl = {}
        self.M = 1 << self.BITS
        self.cmem = z3.Array('cmem', z3.IntSort(), z3.IntSort())
        self.fresh_n = 0
        self.argc = z3.Int('argc')
        self.facts = []          # range facts about terms created on the way (memory cells hold bytes, words are in [0,M))

    def bv(self, n):
        """a word constant (reduced mod M)"""
        return z3.IntVal(n % self.M)

    def all_pre(self):
        return self.pre + self.facts

    def label(self, name):
        if name not in self._lbl:
            v = z3.Int('L_' + name)
            self._lbl[name] = v
            self.facts += [v >= 0, v < self.M]
        return self._lbl[name]

    def fresh(self, prefix, sort=None):
        self.fresh_n += 1
        if sort == 'bool':
            return z3.Bool(f'{prefix}!{self.fresh_n}')
        if sort == 'mem':
            return z3.Array(f'{prefix}!{self.fresh_n}', z3.IntSort(), z3.IntSort())
        v = z3.Int(f'{prefix}!{self.fresh_n}')
        self.facts += [v >= 0, v < self.M]
        return v

    def wrap(self, x):
        return x % self.M


class Engine:
    def __init__(self, items, ctx: Ctx):
        self.ctx = ctx
        self.ins = []
        self.labels = {}
        for it in items:
            if isinstance(it, R.Label):
                if it.name in self.labels:
                    raise EngineError(f'duplicate label {it.name}')
                self.labels[it.name] = len(self.ins)
            elif isinstance(it, R.Ins):
                self.ins.append(it)
        self.safety = []        # (cond list, text, formula)
        self.access_of = {}     # id(formula) -> (kind, section, address term, nbytes, ap, fp, extents) for the replay of refuted SAFE obligations
        self.steps = 0
        self.max_steps = 200000
        self.solver_time = 0.0

    # ---- feasibility ------------------------------------------------------------------------------------
    def sat(self, cond):
        r = smt.satisfiable(self.ctx.all_pre() + list(cond))
        if r is None:
            raise EngineError('feasibility query undecided')
        return r

    # ---- immediates ---------------------------------------------------------------------------------------
    def imm(self, e):
        """immediate expression as an (unreduced) integer term"""
        c = self.ctx; k = e[0]
        if k == 'int': return z3.IntVal(e[1])
        if k == 'w': return z3.IntVal(e[1] * c.W)
        if k == 'lbl': return c.label(e[1])
        if k == 'sym': return c.syms[e[1]]
        if k == 'argc': return c.argc
        if k == 'neg': return -self.imm(e[1])
        if k == 'add': return self.imm(e[1]) + self.imm(e[2])
        if k == 'sub': return self.imm(e[1]) - self.imm(e[2])
        if k == 'and':
            return isa.arith('and', c.wrap(self.imm(e[1])), c.wrap(self.imm(e[2])), c.W)
        raise EngineError(f'bad immediate {e!r}')

    def named(self, o):
        """name of the named word an `[..]` operand denotes, or None"""
        if o.kind == 'state' and o.expr[0] == 'lbl' and o.expr[1] in isa.NAMED_WORDS:
            return o.expr[1]
        return None

    # ---- memory -------------------------------------------------------------------------------------------
    def _in(self, a, n, lo, hi):
        return z3.And(lo <= a, a + n <= hi)

    def safe_state(self, st, a, n):
        alts = [self._in(a, n, st.regs['ap'], st.regs['fp'])]
        for lo, hi in list(self.ctx.extents) + list(st.extents):
            alts.append(self._in(a, n, lo, hi))
        return z3.Or(*alts)

    def safe_const(self, a, n):
        alts = [self._in(a, n, lo, hi) for lo, hi in self.ctx.const_extents]
        return z3.Or(*alts) if alts else z3.BoolVal(False)

    def implied_under(self, cond):
        pre = self.ctx.all_pre() + list(cond)
        return lambda f: smt.prove(pre, f, timeout_ms=3000).verdict == smt.PROVED

    def ld(self, st, cond, a, n, section, what):
        c = self.ctx
        if section == 'state':
            self.safety.append((list(cond), f'load {n} state bytes: {what}', self.safe_state(st, a, n)))
            self.access_of[id(self.safety[-1][2])] = ('load', 'state', a, n, st.regs['ap'], st.regs['fp'], tuple(st.extents))
            mem = st.mem
        else:
            self.safety.append((list(cond), f'load {n} const bytes: {what}', self.safe_const(a, n)))
            self.access_of[id(self.safety[-1][2])] = ('load', 'const', a, n, None, None, ())
            mem = c.cmem
        return load_word(c, mem, a, n, self.implied_under(cond))       # ASSUME: little endian; byte loads zero-extend

    def store(self, st, cond, a, n, v, what):
        self.safety.append((list(cond), f'store {n} state bytes: {what}', self.safe_state(st, a, n)))
        self.access_of[id(self.safety[-1][2])] = ('store', 'state', a, n, st.regs['ap'], st.regs['fp'], tuple(st.extents))
        st.mem = as_mem(st.mem).store(a, n, v)
        st.stores = st.stores + ((a, n, v, what),)

    def val(self, st, cond, o, what='', raw=False):
        """value of an operand as a word in [0, M) (raw=True: immediates are left unreduced, for ring operations)"""
        if o.kind == 'imm':
            v = self.imm(o.expr)
            return v if raw else self.ctx.wrap(v)
        if o.kind == 'state':
            n = self.named(o)
            if n is not None:
                return st.regs[n]
            return self.ld(st, cond, self.ctx.wrap(self.imm(o.expr)), self.ctx.W, 'state', what)
        if o.kind == 'const':
            return self.ld(st, cond, self.ctx.wrap(self.imm(o.expr)), self.ctx.W, 'const', what)
        raise EngineError(f'bad operand {o!r}')

    def setdest(self, st, cond, o, v, what=''):
        n = self.named(o)
        if n is not None:
            if n == 'ap':
                old = st.regs['ap']
                # an increase of ap allocates [old, new): entitled extent for the rest of the path (DESIGN 4.4 SAFE)
                st.extents = st.extents + ((old, v),)
            st.regs[n] = v
        else:
            self.store(st, cond, self.ctx.wrap(self.imm(o.expr)), self.ctx.W, v, what)

    # ---- running --------------------------------------------------------------------------------------------
    def run(self, pc, st, cond, entry=True):
        c = self.ctx
        while True:
            self.steps += 1
            if self.steps > self.max_steps:
                raise EngineError('step budget exhausted (unbounded loop in fragment? add a cut label)')
            if pc >= len(self.ins):
                return [Leaf(cond, 'exit', '<end>', st)]
            if not entry and c.cut_labels:
                # control *falls* into a cut label: same as jumping to it (the run started at a cut label passes it once)
                hit = [n for n, p in self.labels.items() if p == pc and n in c.cut_labels]
                if hit:
                    return [Leaf(cond, 'exit', hit[0], st)]
            entry = False
            i = self.ins[pc]; op = i.op; A = i.args; txt = i.text.decode('latin1')
            if op == 'opaque':
                info = c.children[int(A[0].expr)]
                out = []
                for (c2, kind, tgt, st2) in c.child_sem(self, info, st, cond):
                    c3 = cond + c2
                    if c2 and not self.sat(c3):
                        continue
                    if kind == 'normal':
                        out += self.run(pc + 1, st2, c3, entry=False)
                    elif kind == 'goto':
                        out += self.jump_value(tgt, st2, c3, 'defeat')      # a child that reached (virtual) defeat: `j [defeat]`
                    elif kind == 'jump':
                        out += self.jump_label(tgt, st2, c3)
                    else:
                        out.append(Leaf(c3, kind, tgt, st2))
                return out
            if op == 'halt':
                return [Leaf(cond, 'bot', None, st)]
            if op in R.HALTS:
                l = self.val(st, cond, A[0], txt); r = self.val(st, cond, A[1], txt)
                hc = isa.halt_cond(op, l, r, c.W)
                out = []
                if self.sat(cond + [hc]):
                    out.append(Leaf(cond + [hc], 'bot', None, st))
                nc = cond + [z3.Not(hc)]
                if not self.sat(nc):
                    return out
                return out + self.run(pc + 1, st, nc, entry=False)
            if op == 'j':
                saved = st.copy()
                ft = self.run(pc + 1, st.copy(), cond, entry=False)
                out = []
                for l in ft:
                    if l.kind == 'bot':
                        for l2 in self.jump_operand(A[0], saved.copy(), l.cond, txt):
                            out.append(l2.with_(rewinds=((pc, l),) + l2.rewinds, tag=l2.tag or l.tag))
                    elif l.kind in ('exit', 'ijump') and c.halting_cont and l.hvar is None:
                        h = c.fresh('H', 'bool')
                        out.append(l.with_(cond=l.cond + [z3.Not(h)], hvar=h))
                        for l2 in self.jump_operand(A[0], saved.copy(), l.cond + [h], txt):
                            out.append(l2.with_(tag=('assumed-bot', l), rewinds=((pc, l),) + l2.rewinds))
                    else:
                        out.append(l)
                return out
            st = st.copy()
            if op in R.ARITH:
                ring = op in ('add', 'sub', 'mul')
                a = self.val(st, cond, A[1], txt, raw=ring); b = self.val(st, cond, A[2], txt, raw=ring)
                if op in ('div', 'mod'):
                    self.safety.append((list(cond), f'divisor non-zero: {txt}', b != 0))
                if op in ('asl', 'or', 'xor', 'and'):
                    for x in (a, b):
                        # a value the *preconditions alone* (not the path) bound by 1 is a single bit (bool slots: I-bool)
                        if not z3.is_int_value(z3.simplify(x)) and isa.maybits(x, c.M - 1) > 1 and \
                                smt.prove(c.all_pre(), x <= 1, timeout_ms=2000).verdict == smt.PROVED:
                            isa.set_maybits(x, 1)
                if op in ('asl', 'asr') and not z3.is_int_value(z3.simplify(b)):
                    # shift by a run-time amount (bit number of a bool array element): case split over the feasible amounts,
                    # so that everything downstream works with constant shifts
                    out = []
                    rest = list(cond)
                    for k in range(c.BITS):
                        ck = cond + [b == k]
                        if self.sat(ck):
                            st2 = st.copy()
                            self.setdest(st2, ck, A[0], isa.arith(op, a, z3.IntVal(k), c.W, c.interpret), txt)
                            out += self.run(pc + 1, st2, ck, entry=False)
                        rest.append(b != k)
                        if k >= 7 and not self.sat(rest):
                            break
                    if self.sat(rest):
                        st2 = st.copy()
                        self.setdest(st2, rest, A[0], isa.arith(op, a, b, c.W, c.interpret), txt)
                        out += self.run(pc + 1, st2, rest, entry=False)
                    return out
                v = isa.arith(op, a, b, c.W, c.interpret)
                self.setdest(st, cond, A[0], v, txt)
            elif op == 'mov':
                self.setdest(st, cond, A[0], self.val(st, cond, A[1], txt), txt)
            elif op in R.LOADS and A[1].kind == 'imm' and A[1].expr[0] == 'lbl' and A[1].expr[1] in isa.NAMED_WORDS:
                # direct access to a named word through its label (e.g. `lbs [r2], r1`: low byte of r1, little endian)
                v = st.regs[A[1].expr[1]]
                if op[1] == 'b':
                    v = v % 256
                if op[2] != 's':
                    raise EngineError(f'const load from a state word label: {txt}')
                self.setdest(st, cond, A[0], v, txt)
            elif op in R.STORES and A[0].kind == 'imm' and A[0].expr[0] == 'lbl' and A[0].expr[1] in isa.NAMED_WORDS:
                n = A[0].expr[1]; v = self.val(st, cond, A[1], txt)
                if op[1] == 'b':
                    v = st.regs[n] - st.regs[n] % 256 + v % 256
                if n == 'ap':
                    st.extents = st.extents + ((st.regs['ap'], v),)
                st.regs[n] = v
            elif op in R.LOADS or op in R.LOADOS:
                a = self.val(st, cond, A[1], txt, raw=True)
                if op in R.LOADOS:
                    a = a + self.val(st, cond, A[2], txt, raw=True)
                a = c.wrap(a)
                n = c.W if op[1] == 'w' else 1
                v = self.ld(st, cond, a, n, 'state' if op[2] == 's' else 'const', txt)
                self.setdest(st, cond, A[0], v, txt)
            elif op in R.STORES or op in R.STOREOS:
                a = self.val(st, cond, A[0], txt, raw=True)
                if op in R.STOREOS:
                    a = a + self.val(st, cond, A[1], txt, raw=True)
                a = c.wrap(a)
                v = self.val(st, cond, A[-1], txt)
                self.store(st, cond, a, c.W if op[1] == 'w' else 1, v, txt)
            elif op == 'yield':
                v = self.val(st, cond, A[0], txt)
                st.trace = st.trace + (('out', v % 256),)
            elif op == 'sleep':
                st.trace = st.trace + (('sleep', self.val(st, cond, A[0], txt)),)
            elif op == 'flag':
                st.trace = st.trace + (('flag', A[0].expr.decode()),)
            else:
                raise EngineError(f'unknown op {op}')
            pc += 1

    def jump_operand(self, o, st, cond, txt=''):
        if o.kind == 'imm' and o.expr[0] == 'lbl':
            return self.jump_label(o.expr[1], st, cond)
        kind = 'defeat' if self.named(o) == 'defeat' else 'ra'
        return self.jump_value(self.val(st, cond, o, txt), st, cond, kind)

    def jump_label(self, n, st, cond):
        if n in isa.TERMINAL and getattr(self.ctx, 'use_stub_contracts', True):
            # modular: a jump to a terminal stub is replaced by the stub's contract (proved on the library text itself)
            st = st.copy(); st.trace = st.trace + tuple(('flag', f) for f in isa.TERMINAL[n])
            return [Leaf(cond, 'term', n, st)]
        if n in self.labels and n not in self.ctx.cut_labels:
            act = self.__dict__.setdefault('_active', [])
            if act.count(n) >= getattr(self.ctx, 'max_revisits', 24):
                # a cycle through a label that is not a declared cut point: report it as leaving through that label (the
                # lemma's expected leaves never contain it, so it surfaces as a mismatch rather than a crash)
                return [Leaf(cond, 'exit', n, st)]
            act.append(n)
            try:
                return self.run(self.labels[n], st, cond)
            finally:
                act.pop()
        if n == 'halt':
            return [Leaf(cond, 'bot', None, st)]
        if n in isa.TERMINAL:
            st = st.copy(); st.trace = st.trace + tuple(('flag', f) for f in isa.TERMINAL[n])
            return [Leaf(cond, 'term', n, st)]
        ext = getattr(self.ctx, 'external', None)
        if ext is not None:
            # modular: a jump to a function label is replaced by the callee's contract (call protocol)
            r = ext(self, n, st, cond)
            if r is not None:
                return r
        return [Leaf(cond, 'exit', n, st)]

    def jump_value(self, v, st, cond, kind='any'):
        """indirect jump: case split over the fragment's own labels and `halt`; the rest is an 'ijump' leaf.
        I-defeat / call protocol (preconditions): the defeat word holds `halt` or a try handler label; a return address
        holds an end_call label (or all_is_win), never `halt` and never a handler."""
        c = self.ctx
        out = []; rest = list(cond)
        pref = {'defeat': ('try_handler',), 'ra': ('end_call',), 'any': ('try_handler', 'end_call')}[kind]
        ok = getattr(c, 'indirect_targets', None) or (lambda n: (n == 'halt' and kind != 'ra') or n.startswith(pref))
        for n in [n for n in ['halt'] + list(self.labels) if ok(n)]:
            eq = v == c.label(n)
            if self.sat(cond + [eq]):
                out += self.jump_label(n, st.copy(), cond + [eq])
            rest.append(z3.Not(eq))
        if self.sat(rest):
            out.append(Leaf(rest, 'ijump', v, st))
        return out


def fragment(lines):
    """parse rendered code lines (bytes) as a code fragment"""
    return R.parse_lines(lines, section='code').items
