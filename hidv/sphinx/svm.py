"""Concrete Sphinx VM (replay and engine cross-check only; same assumed ISA as contracts/isa.py, independent code path).

Explicit choice stack: `j X` pushes (X, snapshot) and falls through; a halt pops the newest choice, restores the
snapshot and continues at X; a halt with an empty choice stack is a *committed* halt.
"""
from __future__ import annotations
from . import reader as R


class VMError(Exception):
    pass


class Image:
    """assembled program: sections laid out, labels resolved"""
    def __init__(self, lines, args=()):
        prog = R.parse_lines(lines)
        self.W = prog.word_size or 2
        self.args = list(args)
        self.argv = [a.decode() for a in prog.argv]
        self.state = bytearray(); self.const = bytearray(); self.code = []
        self.labels = {}; self.label_section = {}
        fix = []
        for it in prog.items:
            if isinstance(it, R.Label):
                pos = {'state': len(self.state), 'const': len(self.const), 'code': len(self.code)}[it.section]
                if it.name in self.labels:
                    raise VMError(f'duplicate label {it.name}')
                self.labels[it.name] = pos; self.label_section[it.name] = it.section
            elif isinstance(it, R.Ins):
                self.code.append(it)
            else:
                buf = self.state if it.section == 'state' else self.const
                if it.kind in ('word', 'byte'):
                    size = self.W if it.kind == 'word' else 1
                    for e in it.items:
                        fix.append((buf, len(buf), size, e)); buf.extend(bytes(size))
                elif it.kind == 'zero':
                    buf.extend(bytes(self.eval(it.items[0])))
                elif it.kind == 'ascii':
                    buf.extend(it.items[0])
                elif it.kind == 'arg':
                    self.emit_arg(buf, it.items[0], it.items[1], it.items[2:])
        for buf, off, size, e in fix:
            v = self.eval(e) & ((1 << (8 * size)) - 1)
            buf[off:off + size] = v.to_bytes(size, 'little')

    # ASSUME: %argv binding: positional specs before the variadic bind from the front, those after it from the end
    def argval(self, name):
        specs = self.argv
        vi = [i for i, x in enumerate(specs) if x.startswith('[')]
        if not vi:
            return self.args[[x[1:-1] for x in specs].index(name)]
        v = vi[0]; before = specs[:v]; after = specs[v + 1:]
        for i, x in enumerate(before):
            if x[1:-1] == name:
                return self.args[i]
        for i, x in enumerate(after):
            if x[1:-1] == name:
                return self.args[len(self.args) - len(after) + i]
        return self.args[len(before):len(self.args) - len(after)]

    def emit_arg(self, buf, name, fmt, params):
        v = self.argval(name)
        vs = v if isinstance(v, list) else [v]
        if fmt in ('byte', 'word'):
            size = 1 if fmt == 'byte' else self.W
            for x in vs:
                buf.extend((int(x) & ((1 << (8 * size)) - 1)).to_bytes(size, 'little'))
        elif fmt == 'asciip':
            enc = [x if isinstance(x, bytes) else str(x).encode() for x in vs]
            if 'array' in params:
                base = len(buf) + self.W * len(enc); ptrs = []; blob = bytearray()
                for b in enc:
                    ptrs.append(base + len(blob)); blob += len(b).to_bytes(self.W, 'little') + b
                for p in ptrs:
                    buf.extend(p.to_bytes(self.W, 'little'))
                buf.extend(blob)
            else:
                buf.extend(len(enc[0]).to_bytes(self.W, 'little') + enc[0])
        else:
            raise VMError(f'unknown .arg format {fmt}')

    def eval(self, e):
        k = e[0]
        if k == 'int': return e[1]
        if k == 'w': return e[1] * self.W
        if k == 'lbl':
            if e[1] not in self.labels:
                raise VMError(f'undefined label {e[1]}')
            return self.labels[e[1]]
        if k == 'argc': return len(self.args)
        if k == 'neg': return -self.eval(e[1])
        if k == 'add': return self.eval(e[1]) + self.eval(e[2])
        if k == 'sub': return self.eval(e[1]) - self.eval(e[2])
        if k == 'and': return self.eval(e[1]) & self.eval(e[2])
        raise VMError(f'cannot evaluate {e!r} concretely')


class VM:
    def __init__(self, lines=None, args=(), image=None, div='floor'):
        a = image or Image(lines, args)
        self.a = a; self.W = a.W; self.B = 8 * a.W; self.M = (1 << self.B) - 1
        self.mem = bytearray(a.state); self.const = bytes(a.const); self.code = a.code; self.L = a.labels
        self.pc = 0
        self.events = []        # committed-so-far timeline: ('out', b) / ('flag', name) / ('sleep', v)
        self.choices = []       # (target pc, memory snapshot, len(events), len(accesses))
        self.div = div; self.steps = 0
        self.oob = []           # accesses outside the memory image
        self.accesses = []      # (pc, kind, addr, size) when tracing
        self.trace_accesses = False
        self.pc_escaped = None

    def sx(self, v):
        v &= self.M
        return v - (1 << self.B) if v >> (self.B - 1) else v

    def val(self, o: R.Operand):
        if o.kind == 'imm': return self.a.eval(o.expr) & self.M
        if o.kind == 'state': return self.ldw(self.a.eval(o.expr))
        if o.kind == 'const': return self.ldcw(self.a.eval(o.expr))
        raise VMError(o)

    def _acc(self, kind, a, n):
        if self.trace_accesses:
            self.accesses.append((self.pc, kind, a, n))

    def ldw(self, a):
        a &= self.M; self._acc('ls', a, self.W)
        if a + self.W > len(self.mem):
            self.oob.append(('ldw', a, self.pc)); return 0
        return int.from_bytes(self.mem[a:a + self.W], 'little')

    def ldb(self, a):
        a &= self.M; self._acc('ls', a, 1)
        if a >= len(self.mem):
            self.oob.append(('ldb', a, self.pc)); return 0
        return self.mem[a]

    def ldcw(self, a):
        a &= self.M; self._acc('lc', a, self.W)
        if a + self.W > len(self.const):
            self.oob.append(('ldcw', a, self.pc)); return 0
        return int.from_bytes(self.const[a:a + self.W], 'little')

    def ldcb(self, a):
        a &= self.M; self._acc('lc', a, 1)
        if a >= len(self.const):
            self.oob.append(('ldcb', a, self.pc)); return 0
        return self.const[a]

    def stw(self, a, v):
        a &= self.M; self._acc('ss', a, self.W)
        if a + self.W > len(self.mem):
            self.oob.append(('stw', a, self.pc)); return
        self.mem[a:a + self.W] = (v & self.M).to_bytes(self.W, 'little')

    def stb(self, a, v):
        a &= self.M; self._acc('ss', a, 1)
        if a >= len(self.mem):
            self.oob.append(('stb', a, self.pc)); return
        self.mem[a] = v & 0xFF

    def dest(self, o):
        if o.kind != 'state':
            raise VMError('destination is not a state word')
        return self.a.eval(o.expr)

    def snapshot(self):
        return (bytearray(self.mem), len(self.events), len(self.accesses))

    def restore(self, snap):
        mem, le, la = snap
        self.mem = mem; del self.events[le:]; del self.accesses[la:]

    def resolve(self, tgt):
        """code address -> index into self.code (identity for whole programs)"""
        return tgt

    def _halt(self):
        if not self.choices:
            return False
        tgt, snap = self.choices.pop()
        self.restore(snap)
        self.pc = self.resolve(tgt)
        return True

    def step(self):
        """returns False on a committed halt"""
        if not (0 <= self.pc < len(self.code)):
            self.pc_escaped = self.pc
            raise VMError(f'pc left the code: {self.pc}')
        ins = self.code[self.pc]; op = ins.op; A = ins.args
        self.steps += 1
        nxt = self.pc + 1
        if op == 'halt':
            return self._halt()
        if op in R.HALTS:
            l = self.val(A[0]); r = self.val(A[1]); c = op[1:]
            if c.endswith('u'):
                c = c[:-1]; a, b = l, r
            else:
                a, b = self.sx(l), self.sx(r)
            if {'eq': a == b, 'ne': a != b, 'lt': a < b, 'le': a <= b, 'gt': a > b, 'ge': a >= b}[c]:
                return self._halt()
        elif op == 'j':
            tgt = self.val(A[0])
            self.choices.append((tgt, self.snapshot()))
        elif op in R.ARITH:
            d = self.dest(A[0]); a = self.val(A[1]); b = self.val(A[2]); sa, sb = self.sx(a), self.sx(b)
            if op == 'add': v = a + b
            elif op == 'sub': v = a - b
            elif op == 'mul': v = sa * sb
            elif op in ('div', 'mod'):
                if sb == 0:
                    raise VMError(f'division by zero executed at pc {self.pc}')
                if self.div == 'floor':
                    v = sa // sb if op == 'div' else sa % sb
                else:
                    q = abs(sa) // abs(sb); q = q if (sa < 0) == (sb < 0) else -q
                    v = q if op == 'div' else sa - q * sb
            elif op == 'and': v = a & b
            elif op == 'or': v = a | b
            elif op == 'xor': v = a ^ b
            elif op == 'asl': v = a << min(b, self.B)
            elif op == 'asr': v = sa >> min(b, self.B)
            self.stw(d, v)
        elif op == 'mov': self.stw(self.dest(A[0]), self.val(A[1]))
        elif op == 'lws': self.stw(self.dest(A[0]), self.ldw(self.val(A[1])))
        elif op == 'lwc': self.stw(self.dest(A[0]), self.ldcw(self.val(A[1])))
        elif op == 'lbs': self.stw(self.dest(A[0]), self.ldb(self.val(A[1])))
        elif op == 'lbc': self.stw(self.dest(A[0]), self.ldcb(self.val(A[1])))
        elif op == 'lwso': self.stw(self.dest(A[0]), self.ldw(self.val(A[1]) + self.val(A[2])))
        elif op == 'lwco': self.stw(self.dest(A[0]), self.ldcw(self.val(A[1]) + self.val(A[2])))
        elif op == 'lbso': self.stw(self.dest(A[0]), self.ldb(self.val(A[1]) + self.val(A[2])))
        elif op == 'lbco': self.stw(self.dest(A[0]), self.ldcb(self.val(A[1]) + self.val(A[2])))
        elif op == 'sws': self.stw(self.val(A[0]), self.val(A[1]))
        elif op == 'sbs': self.stb(self.val(A[0]), self.val(A[1]))
        elif op == 'swso': self.stw(self.val(A[0]) + self.val(A[1]), self.val(A[2]))
        elif op == 'sbso': self.stb(self.val(A[0]) + self.val(A[1]), self.val(A[2]))
        elif op == 'yield': self.events.append(('out', self.val(A[0]) & 0xFF))
        elif op == 'sleep': self.events.append(('sleep', self.val(A[0])))
        elif op == 'flag': self.events.append(('flag', A[0].expr.decode()))
        else:
            raise VMError(f'unknown op {op}')
        self.pc = nxt
        return True

    def run(self, max_steps=2_000_000):
        """'win' / 'error' (terminal loop entered) / 'HALT' (committed halt) / 'TIMEOUT'"""
        while self.steps < max_steps:
            flags = [e[1] for e in self.events if e[0] == 'flag']
            if flags and flags[-1] in ('win', 'error') and self.code[self.pc].op == 'sleep':
                return flags[-1]
            if not self.step():
                return 'HALT'
        return 'TIMEOUT'

    @property
    def out(self):
        return bytes(e[1] for e in self.events if e[0] == 'out')

    @property
    def flags(self):
        return [e[1] for e in self.events if e[0] == 'flag']


def compile_hid(src, word_size=2, stack_size=500, unchecked=False, **options):
    """the public pipeline of /repo: parse -> evaluate -> CodeGen -> gen_lines()"""
    from hidc.lexer import SourceCode
    from hidc.parser import parse
    from hidc.ast import Environment
    from hidc.codegen import CodeGen
    env = Environment.empty(**options)
    parse(SourceCode.from_string(src)).evaluate(env)
    cg = CodeGen(env, word_size=word_size, stack_size=stack_size, unchecked=unchecked)
    return list(cg.gen_lines())


def run_hid(src, args=(), word_size=2, stack_size=500, unchecked=False, max_steps=2_000_000, **options):
    lines = compile_hid(src, word_size, stack_size, unchecked, **options)
    vm = VM(lines, args)
    res = vm.run(max_steps)
    return res, vm
