"""Adapter: the API upstream's tests/test_codegen.py imports, on top of hidv.sphinx.svm (corroboration of the ISA transcription)."""
from hidv.sphinx.svm import VM


class Emulator:
    def __init__(self, prog, ctx):
        lines, args = prog
        self.vm = VM(lines, args); self.ctx = ctx; self.done = False

    def step(self):
        if not self.done:
            self.result = self.vm.run(max_steps=3_000_000); self.done = True
            self.events = list(self.vm.events); self.i = 0
        if self.i < len(self.events):
            k, v = self.events[self.i]; self.i += 1
            if k == 'out': self.ctx.output(bytes([v]))
            elif k == 'flag': self.ctx.on_flag(None, v)
            elif k == 'sleep': self.ctx.sleep(v)
            return True
        return self.result != 'HALT'
