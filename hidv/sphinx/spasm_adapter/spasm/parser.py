class Parser:
    def __init__(self, args=()): self.args = list(args); self.lines = []
    def parse_lines(self, lines): self.lines = list(lines)
    def get_program(self): return (self.lines, self.args)
