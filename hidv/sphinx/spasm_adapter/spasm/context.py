class ExecutionContext:
    def __init__(self): pass
class VirtualContext(ExecutionContext): pass
