"""Reader for exactly the dialect of Sphinx assembly that hidc emits (DESIGN.md 4.1).

Input: the *bytes* lines produced by asm.lines()/Directive.lines()/gen_lines()/stdlib_lines.
Output: Program(items) where an item is Label / Ins / Data / Directive.  Immediate expressions are
kept as small ASTs so that the concrete VM (svm) and the symbolic engine (sem) evaluate the same tree.

ASSUME: assembler line grammar (stated, not checkable offline): `label:` optionally followed by an instruction on
the same line; `;` starts a comment outside quotes; operands separated by `,`; `[e]` state word at e, `{e}` const
word at e; expressions over decimal/hex integers, `Nw` (N words), character literals, labels, `$argc`, unary `-`,
binary `+ - &` (`&` binds loosest), parentheses.
"""
from __future__ import annotations
import dataclasses as dc, re


class AsmSyntaxError(Exception):
    pass


@dc.dataclass(frozen=True)
class Operand:
    kind: str      # 'imm' | 'state' | 'const' | 'special'
    expr: object   # expression AST (tuple) or bytes for 'special'


@dc.dataclass
class Label:
    name: str
    section: str


@dc.dataclass
class Ins:
    op: str
    args: tuple
    text: bytes = b''
    section: str = 'code'


@dc.dataclass
class Data:
    kind: str            # 'word' | 'byte' | 'zero' | 'ascii' | 'arg'
    items: tuple         # expr ASTs (word/byte/zero), bytes (ascii), tuple[str] (arg)
    section: str = 'state'
    text: bytes = b''


@dc.dataclass
class Program:
    items: list
    word_size: int | None = None
    argv: tuple = ()


_ESC = {b'n': 10, b'r': 13, b't': 9, b'0': 0, b'\\': 0x5c, b'"': 0x22, b"'": 0x27}


def unescape(body: bytes) -> bytes:
    """ASSUME: the assembler's unescape grammar for .ascii strings and character immediates."""
    out = bytearray(); i = 0
    while i < len(body):
        c = body[i]
        if c == 0x5c:
            n = body[i + 1:i + 2]
            if n == b'x':
                h = body[i + 2:i + 4]
                if len(h) != 2 or not re.fullmatch(rb'[0-9a-fA-F]{2}', h):
                    raise AsmSyntaxError(f'bad \\x escape in {body!r}')
                out.append(int(h, 16)); i += 4
            elif n in _ESC:
                out.append(_ESC[n]); i += 2
            else:
                raise AsmSyntaxError(f'bad escape {body[i:i+2]!r} in {body!r}')
        else:
            if not (0x20 <= c <= 0x7e):
                raise AsmSyntaxError(f'raw non-printable byte {c:#x} in quoted text')
            out.append(c); i += 1
    return bytes(out)


_TOK = re.compile(rb"\s*(?:(0x[0-9a-fA-F]+|\d+)(w?)|('(?:\\x[0-9a-fA-F]{2}|\\.|[^\\'])')|(<<sym:\d+>>)|(\$?[A-Za-z_][A-Za-z_0-9]*)|([-+&()]))")


def parse_expr(e: bytes):
    toks = []; pos = 0; e = e.strip()
    while pos < len(e):
        m = _TOK.match(e, pos)
        if not m:
            raise AsmSyntaxError(f'bad immediate expression {e!r} at {pos}')
        pos = m.end()
        if m.group(1) is not None:
            v = int(m.group(1), 0)
            toks.append(('w', v) if m.group(2) else ('int', v))
        elif m.group(3) is not None:
            b = unescape(m.group(3)[1:-1])
            if len(b) != 1:
                raise AsmSyntaxError(f'character literal {m.group(3)!r} is not one byte')
            toks.append(('int', b[0]))
        elif m.group(4) is not None:
            toks.append(('sym', int(m.group(4)[6:-2])))
        elif m.group(5) is not None:
            n = m.group(5).decode()
            toks.append(('argc',) if n == '$argc' else ('lbl', n))
        else:
            toks.append(m.group(6).decode())
    p = _P(toks, e)
    v = p.and_()
    if p.i != len(toks):
        raise AsmSyntaxError(f'trailing tokens in {e!r}')
    return v


class _P:
    def __init__(self, toks, src):
        self.t = toks; self.i = 0; self.src = src
    def peek(self):
        return self.t[self.i] if self.i < len(self.t) else None
    def and_(self):
        v = self.sum_()
        while self.peek() == '&':
            self.i += 1; v = ('and', v, self.sum_())
        return v
    def sum_(self):
        v = self.un()
        while self.peek() in ('+', '-'):
            o = self.peek(); self.i += 1; r = self.un()
            v = ('add', v, r) if o == '+' else ('sub', v, r)
        return v
    def un(self):
        t = self.peek()
        if t == '-':
            self.i += 1; return ('neg', self.un())
        if t == '(':
            self.i += 1; v = self.and_()
            if self.peek() != ')':
                raise AsmSyntaxError(f'unbalanced parenthesis in {self.src!r}')
            self.i += 1; return v
        if not isinstance(t, tuple):
            raise AsmSyntaxError(f'unexpected {t!r} in {self.src!r}')
        self.i += 1; return t


def split_args(rest: bytes):
    """split at top-level commas, respecting character literals; strips a trailing `; comment`"""
    out = []; cur = b''; i = 0
    while i < len(rest):
        c = rest[i:i + 1]
        if c == b"'":
            j = i + 1
            if rest[j:j + 1] == b'\\':
                j += 4 if rest[j + 1:j + 2] == b'x' else 2
            else:
                j += 1
            if rest[j:j + 1] != b"'":
                raise AsmSyntaxError(f'unterminated character literal in {rest!r}')
            cur += rest[i:j + 1]; i = j + 1; continue
        if c == b',':
            out.append(cur.strip()); cur = b''
        elif c == b';':
            break
        else:
            cur += c
        i += 1
    if cur.strip():
        out.append(cur.strip())
    return out


def parse_operand(a: bytes) -> Operand:
    a = a.strip()
    if a[:1] == b'[' and a[-1:] == b']':
        return Operand('state', parse_expr(a[1:-1]))
    if a[:1] == b'{' and a[-1:] == b'}':
        return Operand('const', parse_expr(a[1:-1]))
    return Operand('imm', parse_expr(a))


ARITH = ('add', 'sub', 'mul', 'div', 'mod', 'and', 'or', 'xor', 'asl', 'asr')
HALTS = ('heq', 'hne', 'hlt', 'hle', 'hgt', 'hge', 'hltu', 'hleu', 'hgtu', 'hgeu')
LOADS = ('lws', 'lwc', 'lbs', 'lbc')
LOADOS = ('lwso', 'lwco', 'lbso', 'lbco')
STORES = ('sws', 'sbs')
STOREOS = ('swso', 'sbso')
ARITY = {**{o: 3 for o in ARITH}, **{o: 2 for o in HALTS}, **{o: 2 for o in LOADS}, **{o: 3 for o in LOADOS},
         **{o: 2 for o in STORES}, **{o: 3 for o in STOREOS}, 'mov': 2, 'j': 1, 'halt': 0, 'yield': 1, 'sleep': 1,
         'flag': 1, 'opaque': 1}
DEST_STATE = set(ARITH) | set(LOADS) | set(LOADOS) | {'mov'}   # first operand must be `[imm]`

_LABEL = re.compile(rb'([A-Za-z_][A-Za-z_0-9]*):\s*(.*)$')


def parse_instruction(line: bytes, section='code') -> Ins:
    op, _, rest = line.partition(b' ')
    op = op.decode()
    if op not in ARITY:
        raise AsmSyntaxError(f'unknown instruction {line!r}')
    if op == 'flag':
        args = (Operand('special', rest.strip()),)
        if not re.fullmatch(rb'[A-Za-z_][A-Za-z_0-9]*', rest.strip()):
            raise AsmSyntaxError(f'bad flag name {line!r}')
    elif op == 'opaque':
        args = (Operand('special', rest.strip()),)
    else:
        args = tuple(parse_operand(a) for a in split_args(rest))
    if len(args) != ARITY[op]:
        raise AsmSyntaxError(f'{op} expects {ARITY[op]} operands: {line!r}')
    if op in DEST_STATE and args[0].kind != 'state':
        raise AsmSyntaxError(f'destination of {op} must be a state word: {line!r}')
    return Ins(op, args, line, section)


def parse_lines(lines, section=None) -> Program:
    """lines: iterable of bytes.  `section` presets the section (for code fragments)."""
    prog = Program([])
    sec = section
    for raw in lines:
        if not isinstance(raw, (bytes, bytearray)):
            raise AsmSyntaxError(f'line is not bytes: {raw!r}')
        if b'\n' in raw or b'\r' in raw:
            raise AsmSyntaxError(f'line contains a raw line break: {raw!r}')
        line = raw.strip()
        if not line or line.startswith(b';'):
            continue
        if line.startswith(b'%'):
            p = line.split()
            if p[0] == b'%argv':
                prog.argv = tuple(p[1:])
            elif p[0] == b'%format' and p[1:2] == [b'word']:
                prog.word_size = int(p[2])
            elif p[0] == b'%format':
                pass
            elif p[0] == b'%section':
                sec = p[1].decode()
                if sec not in ('state', 'const', 'code'):
                    raise AsmSyntaxError(f'unknown section {line!r}')
            else:
                raise AsmSyntaxError(f'unknown directive {line!r}')
            continue
        m = _LABEL.match(line)
        if m:
            prog.items.append(Label(m.group(1).decode(), sec))
            line = m.group(2).strip()
            if not line or line.startswith(b';'):
                continue
        if sec is None:
            raise AsmSyntaxError(f'content before any %section: {line!r}')
        if sec == 'code':
            prog.items.append(parse_instruction(line, sec))
        else:
            d, _, rest = line.partition(b' ')
            if d == b'.word':
                prog.items.append(Data('word', tuple(parse_expr(e) for e in split_args(rest)), sec, line))
            elif d == b'.byte':
                prog.items.append(Data('byte', tuple(parse_expr(e) for e in split_args(rest)), sec, line))
            elif d == b'.zero':
                prog.items.append(Data('zero', (parse_expr(rest),), sec, line))
            elif d == b'.ascii':
                s = rest.strip()
                if not (len(s) >= 2 and s[:1] == b'"' and s[-1:] == b'"'):
                    raise AsmSyntaxError(f'bad .ascii {line!r}')
                body = s[1:-1]
                # an unescaped quote inside the body would end the string early
                j = 0
                while j < len(body):
                    if body[j] == 0x5c:
                        j += 2; continue
                    if body[j] == 0x22:
                        raise AsmSyntaxError(f'unescaped quote inside .ascii body {line!r}')
                    j += 1
                prog.items.append(Data('ascii', (unescape(body),), sec, line))
            elif d == b'.arg':
                prog.items.append(Data('arg', tuple(x.decode() for x in rest.split()), sec, line))
            else:
                raise AsmSyntaxError(f'unknown data directive {line!r}')
    return prog
