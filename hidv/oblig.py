"""Obligation bookkeeping shared by all engines.

A *task* is a picklable reference to a function in /verif/contracts that, run in a worker
process, returns a list of Result records (one per named obligation).  The driver
(hidv.main) selects the tasks serving a property, runs them in a pool, and turns the
results into a verdict, an evidence file, replay files and the VIOLATION / KNOWN-FINDING lines.
"""
from __future__ import annotations
import dataclasses as dc, time, traceback, importlib, json, os, re

DISCHARGED = 'discharged'     # proved by a deductive back end (z3/cvc5) or by complete enumeration of a finite domain
FAILED = 'failed'             # refuted: counter-model or enumerated counterexample
UNDECIDED = 'undecided'       # unknown / timeout / outside subset / replay disagreement
ERROR = 'error'               # the machinery crashed
BOUNDED_OK = 'bounded-ok'     # bounded stand-in found nothing (never counted as discharged)
BOUNDED_FAILED = 'bounded-failed'


@dc.dataclass
class Result:
    name: str
    status: str
    backend: str = 'z3'
    time: float = 0.0
    props: tuple = ()
    detail: dict = dc.field(default_factory=dict)
    # detail keys used by the driver:
    #   'model'    : solver counter-model / enumerated witness (json-able)
    #   'replay'   : {'reproduced': bool|None, 'how': str, 'observed': ..., 'expected': ...}
    #   'formula'  : human readable statement of the obligation
    #   'message'  : free text (solver reason, exception text)
    #   'functions': qualified names of /repo functions whose text this obligation was generated from
    #   'domain'   : size of enumerated domain for backend=enum
    #   'bound'    : text, for bounded stand-ins

    def to_json(self):
        d = dc.asdict(self)
        d['props'] = list(self.props)
        return d


@dc.dataclass(frozen=True)
class Task:
    module: str          # e.g. 'contracts.c13_escape'
    func: str            # function name in that module; called as func(**kwargs) -> list[Result]
    kwargs: tuple = ()   # tuple of (key, value) pairs, picklable
    props: tuple = ()    # properties every obligation of this task serves (a Result may narrow it)
    label: str = ''
    cost: int = 1        # scheduling hint, larger first

    @property
    def wider_word(self):
        """lemma instances at a word size other than the default 16 bit also serve C18 (same behaviour at wider words)"""
        return dict(self.kwargs).get('w', 2) != 2 and 'C01' in self.props

    @property
    def effective_props(self):
        return tuple(self.props) + (('C18',) if self.wider_word else ())

    def run(self):
        t0 = time.time()
        try:
            kw = dict(self.kwargs)
            if kw.pop('_isolate', False) and not os.environ.get('HIDV_IN_ISOLATED_TASK'):
                # a fresh interpreter for this task: non-linear queries are decided in milliseconds or not at all depending on what the z3
                # library of a long-lived worker process has seen before (DESIGN 16.10)
                import pickle, subprocess, sys, base64
                code = ('import sys, pickle, base64, importlib; sys.path[:0] = %r; kw = pickle.loads(base64.b64decode(sys.argv[1])); '
                        'out = list(getattr(importlib.import_module(%r), %r)(**kw) or []); sys.stdout.buffer.write(base64.b64encode(pickle.dumps(out)))'
                        % ([p_ for p_ in sys.path if p_], self.module, self.func))
                pr = subprocess.run([sys.executable, '-c', code, base64.b64encode(pickle.dumps(kw)).decode()], capture_output=True, timeout=3600,
                                    env={**os.environ, 'HIDV_IN_ISOLATED_TASK': '1'})
                if pr.returncode != 0:
                    raise RuntimeError('isolated task failed: ' + pr.stderr.decode('latin1')[-1500:])
                out = pickle.loads(base64.b64decode(pr.stdout))
            else:
                mod = importlib.import_module(self.module)
                out = getattr(mod, self.func)(**kw)
            out = list(out or [])
            for r in out:
                if not r.props:
                    r.props = tuple(self.props)
                if self.wider_word and 'C01' in r.props and 'C18' not in r.props:
                    r.props = tuple(r.props) + ('C18',)
            if not out:
                out = [Result(f'{self.label or self.func}/vacuous', ERROR, 'driver', time.time() - t0, tuple(self.props),
                              {'message': 'task produced zero obligations (vacuity guard)'})]
            return out
        except Exception as e:  # machinery crash: never a violation
            tb = ''.join(traceback.format_exception(e))
            if type(e).__module__.startswith('hidc.') and type(e).__name__.endswith('Error') and 'InternalCompilerError' != type(e).__name__:
                # a diagnostic of the real compiler escaped a contract: every program a contract compiles without expecting a diagnostic is a
                # valid program by construction (README), so the compiler under test rejects a valid program
                return [Result(f'{self.label or self.func}/valid-program-accepted', FAILED, 'driver', time.time() - t0, tuple(sorted(set(self.props) | {'C10'})),
                               {'message': f'the compiler rejects a valid program used by this contract: {type(e).__name__}: {e}', 'formula': 'programs the contracts compile are accepted',
                                'replay': {'reproduced': True, 'how': 'real pipeline on the contract\'s program', 'observed': tb[-800:]}})]
            if type(e).__name__ == 'AsmSyntaxError' and 'compile_hid' in tb:
                # ... except when what crashed is reading the text the real compiler emitted for a whole program: that text is then not
                # well-formed by the stated assembler grammar (C10 "complete assembly the assembler accepts", C13 "always well-formed")
                return [Result(f'{self.label or self.func}/emitted-assembly-well-formed', FAILED, 'reader', time.time() - t0,
                               tuple(sorted(set(self.props) | {'C10', 'C13'})),
                               {'message': f'the assembly emitted by the real compiler does not parse: {e}', 'formula': 'every emitted line parses with the stated assembler grammar',
                                'replay': {'reproduced': True, 'how': 'hidv.sphinx.reader on the output of the real pipeline', 'observed': str(e)[:400]}})]
            return [Result(f'{self.label or self.func}/crash', ERROR, 'driver', time.time() - t0, tuple(self.props),
                           {'message': ''.join(traceback.format_exception(e))[-4000:]})]


def task(module, func, props, label='', cost=1, **kwargs):
    return Task(module, func, tuple(sorted(kwargs.items())), tuple(props), label or func, cost)


def run_task(t: Task):
    t0 = time.time()
    rs = t.run()
    TASK_TIMES[t.label] = time.time() - t0
    return rs, time.time() - t0


TASK_TIMES = {}


def sanitize(name):
    return re.sub(r'[^A-Za-z0-9_.=,+-]+', '_', name)[:180]


class Timer:
    def __enter__(self):
        self.t0 = time.time(); return self
    def __exit__(self, *a):
        self.dt = time.time() - self.t0
