"""C10 (diagnostics): every compiler diagnostic is located inside the source and can be rendered; the CLI exits non-zero and leaves no
output file on failure, exits zero with a complete file on success.

The raise sites of CompilerError subclasses in the package are inventoried from the AST on every run; a corpus of witness programs (one or more per
kind of diagnostic, including the variants where the earlier definition is a built-in) is pushed through the real pipeline and each diagnostic is
rendered with the real CompilerError.get_info.  BOUNDED-IN: this is a corpus (fault enumeration), not a proof over all texts; the evidence lists the
raise sites the corpus reached and those it did not.
"""
from __future__ import annotations
import ast as pyast, glob, os, sys, time, traceback, subprocess, tempfile, shutil
from hidv.oblig import task, Result, DISCHARGED, FAILED, UNDECIDED, BOUNDED_OK, BOUNDED_FAILED

MOD = 'contracts.py_errors'
REPO = os.environ.get('HIDV_REPO', '/repo')

Y = 'empty @is_you() {}'
CORPUS = [
    # lexer
    ('lex: stray character', 'empty @is_you() { int x = 1 $ 2; }', {}),
    ('lex: bad byte escape', 'empty @is_you() { write("\\xZZ"); }', {}),
    ('lex: bad unicode escape', 'empty @is_you() { write("\\u12"); }', {}),
    ('lex: codepoint too large', 'empty @is_you() { write("\\u{110000}"); }', {}),
    ('lex: huge codepoint', 'empty @is_you() { write("\\u{FFFFFFFFFFFFFFFFFFFF}"); }', {}),
    ('lex: surrogate', 'empty @is_you() { write("\\u{D800}"); }', {}),
    ('lex: bad escape', 'empty @is_you() { write("\\q"); }', {}),
    ('lex: escape at end of line', 'empty @is_you() { write("\\', {}),
    ('lex: unclosed string', 'empty @is_you() { write("abc); }', {}),
    ('lex: unclosed char', "empty @is_you() { write('a); }", {}),
    ('lex: empty char', "empty @is_you() { write(''); }", {}),
    ('lex: unicode char literal', "empty @is_you() { write('\\u{20AC}'); }", {}),
    ('lex: char at end', "empty @is_you() { write('", {}),
    ('lex: bad flavoured identifier', 'empty @is_you() { @ 1; }', {}),
    ('lex: keyword as you identifier', 'empty @if() {}', {}),
    ('lex: over-long decimal literal', 'empty @is_you() { write(' + '1' * 5000 + '); }', {}),
    # parser
    ('parse: missing semicolon', 'empty @is_you() { int x = 1 }', {}),
    ('parse: end of file', 'empty @is_you() {', {}),
    ('parse: unprocessed token', 'empty @is_you() {} }', {}),
    ('parse: const without type', 'empty @is_you() { const x = 1; }', {}),
    ('parse: [ after array type', 'empty @is_you() { int[] x[3]; }', {}),
    ('parse: break outside loop', 'empty @is_you() { break; }', {}),
    ('parse: continue outside loop', 'empty @is_you() { continue; }', {}),
    ('parse: try outside you', 'empty f() { try {} undo {} } ' + Y, {}),
    ('parse: preempt outside defeat', 'empty @is_you() { preempt {} }', {}),
    ('parse: speculation outside you', 'int f() { return 1 ?? 2; } ' + Y, {}),
    ('parse: improper identifier use', 'empty f() { !is_defeat(); } ' + Y, {}),
    ('parse: you call in try', 'empty @g() {} empty @is_you() { try { @g(); } undo {} }', {}),
    ('parse: missing handler', 'empty @is_you() { try {} }', {}),
    ('parse: expected expression', 'empty @is_you() { int x = ; }', {}),
    ('parse: for header', 'empty @is_you() { for (int i = 0 i < 3; ) {} }', {}),
    ('parse: global statement', 'write(1); ' + Y, {}),
    ('parse: missing )', 'empty @is_you() { write((1 + 2); }', {}),
    ('parse: eof in expression', 'empty @is_you() { int x = (1 +', {}),
    # typechecker
    ('type: undeclared', 'empty @is_you() { x = 1; }', {}),
    ('type: redeclaration', 'empty @is_you() { int x = 1; int x = 2; }', {}),
    ('type: global redeclaration', 'int x = 1; int x = 2; ' + Y, {}),
    ('type: assign const', 'empty @is_you() { const int x = 1; x = 2; }', {}),
    ('type: assign const array element', 'empty @is_you() { const int[] a = [1]; a[0] = 2; }', {}),
    ('type: assign string element', 'empty @is_you() { string s = "a"; s[0] = \'b\'; }', {}),
    ('type: narrowing', 'empty @is_you() { int i = 1; byte b = i; }', {}),
    ('type: const array to mutable', 'empty f(int[] a) {} empty @is_you() { const int[] a = [1]; f(a); }', {}),
    ('type: no matching function', 'empty @is_you() { write(1, 2); }', {}),
    ('type: print hint', 'empty @is_you() { println("x"); }', {}),
    ('type: unknown function', 'empty @is_you() { nope(); }', {}),
    ('type: redefinition of user function', 'empty f() {} empty f() {} ' + Y, {}),
    ('type: redefinition of builtin', 'empty writeln() {} ' + Y, {}),
    ('type: redefinition of builtin with args', 'empty sleep(int ms) {} ' + Y, {}),
    ('type: redefinition of defeat builtin', 'empty !is_defeat() {} ' + Y, {}),
    ('type: missing return', 'int f() { } ' + Y, {}),
    ('type: missing return value', 'int f() { return; } ' + Y, {}),
    ('type: unexpected return value', 'empty f() { return 1; } ' + Y, {}),
    ('type: nested array', 'empty @is_you() { int[] a = [1]; int[] b = [a]; }', {}),
    ('type: empty element', 'empty f() {} empty @is_you() { [f()]; }', {}),
    ('type: unresolvable array', 'empty @is_you() { [1, true]; }', {}),
    ('type: ambiguous array', 'empty @is_you() { write([][0]); }', {}),
    ('type: index non-array', 'empty @is_you() { int x = 1; write(x[0]); }', {}),
    ('type: length of non-array', 'empty @is_you() { int x = 1; write(x.length); }', {}),
    ('type: bad cast', 'empty @is_you() { write(1 is string); }', {}),
    ('type: bad operand', 'empty @is_you() { write("a" + 1); }', {}),
    ('type: division by zero folded', 'empty @is_you() { write(1 / 0); }', {}),
    ('type: modulus of zero folded', 'empty @is_you() { write(1 % 0); }', {}),
    ('type: speculation type', 'empty @is_you() { write("a" ?? "b"); }', {}),
    ('type: const array from mutable', 'empty @is_you() { int[] a = [1]; const int[] b = a; }', {}),
    ('type: unreachable (lint)', 'empty @is_you() { return; write(1); }', {'unreachable_error': True}),
    ('type: local shadowing', 'empty @is_you() { int x = 1; { int x = 2; } }', {}),
    # code generator
    ('gen: no entry point', 'empty f() {}', {}),
    ('gen: two entry points', 'empty @is_you() {} empty @is_you(int x) {}', {}),
    ('gen: entry returns value', 'int @is_you() { return 1; }', {}),
    ('gen: bool entry parameter', 'empty @is_you(bool b) {}', {}),
    ('gen: two arrays in entry', 'empty @is_you(int[] a, int[] b) {}', {}),
    ('gen: mutable string[] entry', 'empty @is_you(string[] a) {}', {}),
    ('gen: bool[] entry', 'empty @is_you(bool[] a) {}', {}),
    ('gen: non-constant global', 'int f() { return 1; } int g = f(); empty @is_you() { write(g); }', {}),
    ('gen: global array too large', 'int big[40000]; empty @is_you() { write(big[0]); }', {}),
    ('gen: word size', Y, {'word_size': 1}),
    ('gen: stack too large', Y, {'stack_size': 40000}),
]


def raise_sites():
    sites = []
    for path in sorted(glob.glob(os.path.join(REPO, 'hidc', '**', '*.py'), recursive=True)):
        rel = os.path.relpath(path, REPO)
        for n in pyast.walk(pyast.parse(open(path).read())):
            if isinstance(n, pyast.Raise) and n.exc is not None:
                c = n.exc
                if isinstance(c, pyast.Await): c = c.value
                f = c.func if isinstance(c, pyast.Call) else c
                name = f.id if isinstance(f, pyast.Name) else (f.value.id + '.' + f.attr if isinstance(f, pyast.Attribute) and isinstance(f.value, pyast.Name) else None)
                if name and ('Error' in name):
                    sites.append((rel, n.lineno, name))
    return sites


def run_pipeline(src, opts):
    from hidc.lexer import SourceCode
    from hidc.parser import parse
    from hidc.ast import Environment
    from hidc.codegen import CodeGen
    source = SourceCode.from_string(src)
    env = Environment.empty(**({'unreachable_error': True} if opts.get('unreachable_error') else {}))
    parse(source).evaluate(env)
    cg = CodeGen(env, opts.get('word_size', 2), opts.get('stack_size', 500), False)
    list(cg.gen_lines())
    return source


def ob_diagnostics():
    from hidc.errors import CompilerError
    from hidc.lexer import SourceCode, Span, Cursor
    t0 = time.time(); bad = []; hit = set(); n = 0
    for name, src, opts in CORPUS:
        n += 1
        source = SourceCode.from_string(src)
        try:
            run_pipeline(src, opts)
            bad.append({'program': name, 'problem': 'accepted (the corpus entry expects a diagnostic)'}); continue
        except CompilerError as e:
            tb = traceback.extract_tb(e.__traceback__)
            for fr in reversed(tb):
                if fr.filename.startswith(os.path.join(REPO, 'hidc')):
                    hit.add((os.path.relpath(fr.filename, REPO), fr.lineno)); break
            try:
                text = e.get_info(source)
                for ctx in e.context:
                    if not isinstance(ctx, (Span, Cursor)):
                        bad.append({'program': name, 'problem': f'context entry is {type(ctx).__name__}, not a position'}); break
                    line = ctx.start.line
                    if not (0 <= line < max(1, len(source.lines))) or not (0 <= ctx.start.col <= len(source.lines[line]) if source.lines else True):
                        bad.append({'program': name, 'problem': f'position {ctx.start} lies outside the source'})
                if not isinstance(text, str) or not text: bad.append({'program': name, 'problem': 'empty rendering'})
            except Exception as ex:
                bad.append({'program': name, 'source': src[:80], 'problem': f'diagnostic cannot be rendered: {type(ex).__name__}: {ex}', 'message': str(e)})
        except Exception as ex:
            bad.append({'program': name, 'source': src[:80], 'problem': f'escapes with {type(ex).__name__}: {ex}'})
    sites = raise_sites()
    covered = [s for s in sites if any(h[0] == s[0] and abs(h[1] - s[1]) <= 6 for h in hit)]
    uncovered = [f'{s[0]}:{s[1]} {s[2]}' for s in sites if s not in covered]
    det = {'bound': f'{n} witness programs; {len(covered)} of {len(sites)} raise sites of the package reached', 'formula': 'every diagnostic is a CompilerError whose positions lie inside the source and which get_info renders',
           'count': n, 'raise_sites_not_reached': uncovered, 'functions': ['hidc.errors.CompilerError.get_info', 'hidc.errors.CompilerError.__init__', 'hidc.ast.symbols.Environment.add_funcs']}
    if bad: det.update(model=bad[:5], replay={'reproduced': True, 'how': 'real pipeline + real get_info on the corpus entry', 'observed': bad[0]})
    return [Result('C10/diagnostics/located-and-renderable', BOUNDED_FAILED if bad else BOUNDED_OK, 'bounded:corpus', time.time() - t0, (), det)]


def ob_cli():
    """python -m hidc: exit status, stderr, output file"""
    t0 = time.time(); bad = []
    d = tempfile.mkdtemp(prefix='hidv_cli_')
    try:
        cases = [('ok.hid', 'empty @is_you() { writeln("hi"); }', [], 0, True), ('bad_type.hid', 'empty @is_you() { x = 1; }', [], 1, False),
                 ('bad_lex.hid', 'empty @is_you() { write("\\q"); }', [], 1, False), ('bad_gen.hid', 'empty f() {}', [], 1, False),
                 ('lint.hid', 'empty @is_you() { return; write(1); }', ['--lint'], 1, False), ('nolint.hid', 'empty @is_you() { return; write(1); }', [], 0, True),
                 ('wide.hid', 'empty @is_you(int a) { write(a); }', ['-m', '32', '-s', '50', '--unchecked'], 0, True)]
        for fn, src, opts, want_rc, want_file in cases:
            p = os.path.join(d, fn); open(p, 'w').write(src)
            out = p + '.s'
            r = subprocess.run(['/venv/bin/python', '-m', 'hidc', p] + opts, capture_output=True, text=True, cwd=REPO, env={**os.environ, 'PYTHONPATH': REPO}, timeout=60)
            rc = r.returncode
            if rc != want_rc: bad.append({'program': fn, 'exit': rc, 'documented': want_rc, 'stderr': r.stderr[-200:]})
            if os.path.exists(out) != want_file: bad.append({'program': fn, 'output_file_exists': os.path.exists(out), 'documented': want_file})
            if want_rc and 'Traceback' in r.stderr: bad.append({'program': fn, 'problem': 'traceback instead of a diagnostic', 'stderr': r.stderr[-300:]})
            if want_file and os.path.exists(out):
                from hidv.sphinx import reader
                try:
                    reader.parse_lines(open(out, 'rb').read().split(b'\n'))
                except reader.AsmSyntaxError as e:
                    bad.append({'program': fn, 'problem': f'output is not well-formed assembly: {e}'})
    finally:
        shutil.rmtree(d, ignore_errors=True)
    det = {'bound': '7 invocations of python -m hidc', 'formula': 'failure: exit 1, diagnostic on stderr, no output file; success: exit 0, complete well-formed assembly', 'count': 7,
           'functions': ['hidc.__main__.main']}
    if bad: det.update(model=bad[:4], replay={'reproduced': True, 'how': 'subprocess python -m hidc', 'observed': bad[0]})
    return [Result('C10/cli/exit-status-and-output-file', BOUNDED_FAILED if bad else BOUNDED_OK, 'bounded:subprocess', time.time() - t0, (), det)]


def valid_programs():
    """systematically generated accepted programs (every declaration form x element type x length 0..17, operators, control flow) + the repository's examples"""
    out = []
    lit = {'int': lambda k: str(k * 7 - 3), 'byte': lambda k: str(k * 5 % 256), 'bool': lambda k: 'true' if k % 3 else 'false', 'string': lambda k: '"s%d"' % k}
    use = {'int': 'write(%s);', 'byte': 'write(%s is int);', 'bool': 'write(%s);', 'string': 'write(%s);'}
    for el in lit:
        for n in range(0, 18):
            vals = ', '.join(lit[el](k) for k in range(n))
            idx = f'{use[el] % ("a[%d]" % (n - 1))}' if n else ''
            out.append((f'global {el}[{n}] literal', f'{el}[] a = [{vals}];\nempty @is_you() {{ write(a.length); {idx} }}'))
            out.append((f'global const {el}[{n}] literal', f'const {el}[] a = [{vals}];\nempty @is_you() {{ write(a.length); {idx} }}'))
            out.append((f'local {el}[{n}] literal', f'empty @is_you() {{ {el}[] a = [{vals}]; write(a.length); {idx} }}'))
            out.append((f'local const {el}[{n}] literal', f'empty @is_you() {{ const {el}[] a = [{vals}]; write(a.length); {idx} }}'))
            out.append((f'global {el} a[{n}]', f'{el} a[{n}];\nempty @is_you() {{ write(a.length); }}'))
            if n in (1, 3, 9):
                out.append((f'global {el} a[{n}] written and passed', f'{el} a[{n}];\nempty fill({el}[] x) {{ x[0] = {lit[el](2)}; }}\n'
                                                                       f'empty @is_you() {{ a[{n - 1}] = {lit[el](1)}; fill(a); write(a.length); }}'))
                out.append((f'global {el}[{n}] literal written', f'{el}[] a = [{vals}];\nempty @is_you() {{ a[0] = {lit[el](1)}; write(a.length); }}'))
            out.append((f'local {el} a[{n}]', f'empty @is_you(int k) {{ {el} a[{n}]; {el} b[k]; write(a.length + b.length); }}'))
    for path in sorted(glob.glob(os.path.join(REPO, 'examples', '*.hid'))):
        out.append(('examples/' + os.path.basename(path), open(path).read()))
    return out


def ob_valid():
    """accepted programs yield complete, well-formed assembly under every option combination of a small grid (no internal exception)"""
    from hidc.errors import CompilerError
    from hidv.sphinx import reader, svm
    t0 = time.time(); bad = []; n = 0
    for name, src in valid_programs():
        for w, unchecked in ((2, False), (3, True)):
            n += 1
            try:
                lines = svm.compile_hid(src, word_size=w, unchecked=unchecked)
                reader.parse_lines(lines)
            except CompilerError as e:
                bad.append({'program': name, 'options': {'word_size': w, 'unchecked': unchecked}, 'problem': f'a valid program is rejected: {e}', 'source': src[:300]})
            except reader.AsmSyntaxError as e:
                bad.append({'program': name, 'options': {'word_size': w, 'unchecked': unchecked}, 'problem': f'output is not well-formed assembly: {e}', 'source': src[:300]})
            except Exception as e:
                bad.append({'program': name, 'options': {'word_size': w, 'unchecked': unchecked}, 'problem': f'internal exception {type(e).__name__}: {e}', 'source': src[:300]})
        if len(bad) > 8: break
    det = {'bound': f'{n} compilations of generated declarations (4 element types x lengths 0..17 x 6 forms) and the examples directory', 'count': n,
           'formula': 'an accepted program compiles to well-formed assembly: no internal exception, no spurious diagnostic',
           'functions': ['hidc.codegen.generator.CodeGen.gen_lines', 'hidc.codegen.generator.CodeGen.make_global', 'hidc.codegen.generator.CodeGen.pack_bools', 'hidc.ast.program.Program.evaluate']}
    if bad: det.update(model=bad[:5], replay={'reproduced': True, 'how': 'real pipeline on the generated program', 'observed': bad[0]})
    return [Result('C10/accepted-programs/compile-to-well-formed-assembly', BOUNDED_FAILED if bad else BOUNDED_OK, 'bounded:corpus', time.time() - t0, (), det)]


def tasks(tier):
    return [task(MOD, 'ob_valid', ('C10',), label='py/errors/valid', cost=6),
            task(MOD, 'ob_diagnostics', ('C10',), label='py/errors/diagnostics', cost=3),
            task(MOD, 'ob_cli', ('C10',), label='py/errors/cli', cost=5)]
