"""C18: reproducible builds; options do not change meaning.

  DET    the package consults hash order / process identity / time / environment nowhere except at the listed, order-independent sites
         (frame contract over the package's own AST) + bounded differential: same source under different PYTHONHASHSEED gives identical bytes
  LINT   `unreachable_error` is read at one site only and that site can only raise (pyvc relational contract on CodeBlock.evaluate)
  STACK  `stack_size` reaches only the size of the stack area and the range check; every guard compares fp-ap against a quantity that does not
         depend on it (guards are exact by the C05 lemmas, hence monotone in the available space)
  WORD   lemma instances at word sizes other than 16 bit (w = 3, 8 in the quick tier; 3, 4, 8 thorough) are tagged C18 by the driver
"""
from __future__ import annotations
import ast as pyast, os, sys, time, glob, subprocess, json
from hidv.oblig import task, Result, DISCHARGED, FAILED, UNDECIDED, BOUNDED_OK, BOUNDED_FAILED
from hidv.pyvc import core as V

MOD = 'contracts.py_repro'
REPO = os.environ.get('HIDV_REPO', '/repo')


def package_files():
    return sorted(glob.glob(os.path.join(REPO, 'hidc', '**', '*.py'), recursive=True))


SET_NAMES = {'enum_tokens'}          # module-level sets of the package
ALLOWED_SET_ITERATION = {
    # (file suffix, enclosing assignment target): why order does not matter
    ('lexer/readers.py', 'keyword_tokens'): 'dict used for lookup only (C12 tables contract)',
    ('lexer/readers.py', 'symbol_tokens'): 'sorted by length; for every prefix pair the longer comes first whatever the tie order (C12 tables contract)',
}
FORBIDDEN_CALLS = {'id', 'hash', 'getpid', 'time', 'perf_counter', 'monotonic', 'urandom', 'random', 'randint', 'getenv', 'uuid4', 'uuid1'}
FORBIDDEN_ATTRS = {'environ'}


def is_setish(node):
    if isinstance(node, (pyast.Set, pyast.SetComp)): return True
    if isinstance(node, pyast.Call) and isinstance(node.func, pyast.Name) and node.func.id in ('set', 'frozenset'): return True
    if isinstance(node, pyast.Name) and node.id in SET_NAMES: return True
    if isinstance(node, pyast.Attribute) and node.attr in SET_NAMES | {'flavors'}: return True
    return False


def ob_determinism():
    t0 = time.time(); bad = []; sites = 0
    for path in package_files():
        rel = os.path.relpath(path, os.path.join(REPO, 'hidc'))
        tree = pyast.parse(open(path).read())
        parents = {}
        for n in pyast.walk(tree):
            for c in pyast.iter_child_nodes(n): parents[c] = n
        def target_of(n):
            while n in parents:
                n = parents[n]
                if isinstance(n, pyast.Assign) and isinstance(n.targets[0], pyast.Name): return n.targets[0].id
            return None
        for n in pyast.walk(tree):
            its = []
            if isinstance(n, (pyast.For, pyast.AsyncFor)): its.append(n.iter)
            if isinstance(n, pyast.comprehension): its.append(n.iter)
            if isinstance(n, pyast.Call) and isinstance(n.func, pyast.Name) and n.func.id in ('list', 'tuple', 'sorted', 'enumerate', 'iter', 'next', 'zip', 'map', 'filter') and n.args:
                its += list(n.args)
            if isinstance(n, pyast.Call) and isinstance(n.func, pyast.Attribute) and n.func.attr in ('join', 'extend') and n.args:
                its += list(n.args)
            if isinstance(n, pyast.Starred): its.append(n.value)
            for it in its:
                if is_setish(it):
                    sites += 1
                    key = (rel, target_of(n))
                    if key not in ALLOWED_SET_ITERATION:
                        bad.append({'file': rel, 'line': getattr(n, 'lineno', getattr(it, 'lineno', 0)), 'problem': 'iteration over a set (hash order) at a site not known to be order-independent'})
            if isinstance(n, pyast.Call):
                fn = n.func.id if isinstance(n.func, pyast.Name) else (n.func.attr if isinstance(n.func, pyast.Attribute) else None)
                if fn in FORBIDDEN_CALLS and not (fn == 'hash' and False):
                    bad.append({'file': rel, 'line': n.lineno, 'problem': f'call of {fn}() (process/time/identity dependent value)'})
            if isinstance(n, pyast.Attribute) and n.attr in FORBIDDEN_ATTRS:
                bad.append({'file': rel, 'line': n.lineno, 'problem': f'use of .{n.attr}'})
    det = {'formula': 'no iteration over hash-ordered containers outside the two order-independent sites in readers.py; no id()/hash()/time/random/environment in the package',
           'sites': sites, 'functions': ['hidc (package AST)']}
    if bad:
        det.update(model=bad[:6], replay=replay_hashseed())
    return [Result('C18/determinism/no-hash-order-time-or-environment', FAILED if bad else DISCHARGED, 'pyvc-syntactic', time.time() - t0, (), det)]


CORPUS_EXTRA = [
    'int g = 3; const byte[] t = [1,2,3]; bool[] m = [true,false,true]; string s = "hi"; '
    'int f(int a, byte b) { return a + b; } int f(byte a, byte b) { return 1; } empty !d(int x) { !truth_is_defeat(x == g); } '
    'empty @is_you(const string[] args) { int[] a = [1, f(2,3), g]; write(args.length); writeln(s); for (int i = 0; i < a.length; i += 1) { a[i] += t[i]; } '
    'try { !d(a[0]); preempt { g = 4; } writeln("x"); } undo { writeln("u"); } try { !d(1); } stop { writeln(m[1]); } write(f(1,2) ?? 3); }',
]


def compile_bytes_subprocess(src, seed, opts=()):
    code = ('import sys; sys.path.insert(0, %r)\n'
            'from hidc.lexer import SourceCode; from hidc.parser import parse; from hidc.ast import Environment; from hidc.codegen import CodeGen\n'
            'import hashlib\n'
            'env = Environment.empty(); parse(SourceCode.from_string(sys.stdin.read())).evaluate(env)\n'
            'cg = CodeGen(env, %d, %d, %r)\n'
            'print(hashlib.sha256(b"\\n".join(cg.gen_lines())).hexdigest())\n') % (REPO, opts[0], opts[1], opts[2])
    env = dict(os.environ); env['PYTHONHASHSEED'] = str(seed)
    r = subprocess.run(['/venv/bin/python', '-c', code], input=src, capture_output=True, text=True, env=env, timeout=120)
    return r.stdout.strip() or ('ERR ' + r.stderr.strip()[-200:])


def corpus():
    out = list(CORPUS_EXTRA)
    for p in sorted(glob.glob(os.path.join(REPO, 'examples', '*.hid'))):
        out.append(open(p).read())
    return out


def replay_hashseed(seeds=(0, 1, 2, 3, 12345, 4242)):
    diffs = []
    for k, src in enumerate(corpus()):
        hs = {s: compile_bytes_subprocess(src, s, (2, 500, False)) for s in seeds}
        if len(set(hs.values())) != 1:
            diffs.append({'program': k, 'hashes': hs})
    return {'reproduced': bool(diffs), 'how': 'compiled the corpus in separate processes under different PYTHONHASHSEED values and compared sha256 of the assembly', 'observed': diffs[:2] or 'identical'}


def ob_hashseed_bounded():
    t0 = time.time()
    r = replay_hashseed()
    det = {'bound': f'{len(corpus())} programs (examples + a construct-rich program) x 6 hash seeds, separate processes', 'formula': 'byte-identical assembly', 'count': len(corpus()) * 6,
           'functions': ['hidc.codegen.generator.CodeGen.gen_lines']}
    if r['reproduced']: det.update(model=r['observed'], replay=r)
    return [Result('C18/determinism/hash-seed-differential', BOUNDED_FAILED if r['reproduced'] else BOUNDED_OK, 'bounded:subprocess', time.time() - t0, (), det)]


def ob_lint_only_raises():
    from hidc.ast import blocks
    t0 = time.time(); bad = []
    uses = []
    for path in package_files():
        rel = os.path.relpath(path, os.path.join(REPO, 'hidc'))
        tree = pyast.parse(open(path).read())
        for n in pyast.walk(tree):
            if isinstance(n, pyast.Constant) and n.value == 'unreachable_error': uses.append((rel, n.lineno))
            if isinstance(n, pyast.Attribute) and n.attr == 'options' and rel not in ('ast/symbols.py',): uses.append((rel, n.lineno))
    allowed_files = {'ast/blocks.py', '__main__.py'}
    for rel, line in uses:
        if rel not in allowed_files: bad.append({'file': rel, 'line': line, 'problem': 'the lint option is consulted outside CodeBlock.evaluate / main'})
    # the site in CodeBlock.evaluate: `if env.options.get('unreachable_error', False): raise ...` and nothing else in that branch
    f, node = V.get_function('CodeBlock.evaluate', blocks)
    sites = [n for n in pyast.walk(node) if isinstance(n, pyast.If) and any(isinstance(c, pyast.Constant) and c.value == 'unreachable_error' for c in pyast.walk(n.test))]
    if len(sites) != 1: bad.append({'problem': f'{len(sites)} sites test the lint option in CodeBlock.evaluate'})
    for s in sites:
        if not (len(s.body) == 1 and isinstance(s.body[0], pyast.Raise) and not s.orelse):
            bad.append({'problem': 'the lint branch does something other than raising', 'line': s.lineno})
    # relational execution on sample blocks: with lint either raises or returns an equal block
    from hidc import ast as A
    from hidc.errors import TypeCheckError
    from hidc.lexer import Span, Cursor
    SP_ = Span(Cursor(0, 0), Cursor(0, 1))
    import itertools
    stmts_pool = [A.ReturnStatement(SP_), A.BreakStatement(SP_), A.ContinueStatement(SP_), A.IntValue(1, SP_)]
    n = 0
    for k in range(0, 4):
        for combo in itertools.product(stmts_pool, repeat=k):
            n += 1
            blk = A.CodeBlock(tuple(combo), SP_, False)
            plain = blk.evaluate(A.Environment.empty().new_child(A.DataType.EMPTY))
            try:
                linted = blk.evaluate(A.Environment.empty(unreachable_error=True).new_child(A.DataType.EMPTY))
                if linted != plain or linted.exit_modes() != plain.exit_modes(): bad.append({'stmts': [type(s).__name__ for s in combo], 'problem': 'lint changed the typed block'})
            except TypeCheckError:
                pass
    det = {'formula': '--lint is read at one site which can only raise; with lint a block evaluates to the same typed block or is rejected', 'domain': n,
           'functions': ['hidc.ast.blocks.CodeBlock.evaluate', 'hidc.__main__.main']}
    if bad: det.update(model=bad[:5], replay={'reproduced': None})
    return [Result('C18/lint/only-raises', FAILED if bad else DISCHARGED, 'pyvc-syntactic+enum', time.time() - t0, (), det)]


def ob_stack_size_uses():
    t0 = time.time(); bad = []; uses = []
    for path in package_files():
        rel = os.path.relpath(path, os.path.join(REPO, 'hidc'))
        tree = pyast.parse(open(path).read())
        funcs = {}
        for fn in pyast.walk(tree):
            if isinstance(fn, (pyast.FunctionDef, pyast.AsyncFunctionDef)):
                for n in pyast.walk(fn):
                    if isinstance(n, pyast.Attribute) and n.attr == 'stack_size':
                        uses.append((rel, fn.name, n.lineno))
    allowed = {('codegen/generator.py', '__post_init__'), ('codegen/generator.py', 'gen_lines'), ('__main__.py', 'main')}
    for rel, fn, line in uses:
        if (rel, fn) not in allowed: bad.append({'file': rel, 'function': fn, 'line': line, 'problem': 'stack_size influences generated code outside the stack area size / range check'})
    det = {'formula': 'stack_size is used only for the size of the stack area (gen_lines) and the range check (__post_init__): no emitted instruction depends on it; '
                      'guards compare fp-ap with stack-size independent quantities and are exact (C05 lemmas), hence monotone in the available space',
           'sites': len(uses), 'functions': ['hidc.codegen.generator.CodeGen.__post_init__', 'hidc.codegen.generator.CodeGen.gen_lines']}
    if bad: det.update(model=bad, replay={'reproduced': None})
    return [Result('C18/stack-size/reaches-only-the-stack-area', FAILED if bad else DISCHARGED, 'pyvc-syntactic', time.time() - t0, (), det)]


def ob_stack_monotone_bounded():
    """BOUNDED-IN: a run that completes at stack size S behaves identically at S' > S (corpus on the VM)"""
    from hidv.sphinx import svm
    t0 = time.time(); bad = []; n = 0
    progs = [('empty @is_you(int k) { int[] a = [k, k+1, k+2]; int s = 0; for (int i = 0; i < a.length; i += 1) { s += a[i]; byte b[i+1]; b[i] = 7; } writeln(s); write("done"); }', ['5']),
             ('int f(int n) { if (n < 2) { return n; } return f(n-1) + f(n-2); } empty @is_you() { writeln(f(7)); }', [])]
    for src, args in progs:
        ref = None
        for ss in list(range(4, 60, 3)) + [200, 1000]:
            for w in (2, 3):
                n += 1
                try:
                    res, vm = svm.run_hid(src, args=args, word_size=w, stack_size=ss, max_steps=400000)
                except Exception as e:
                    bad.append({'stack': ss, 'error': repr(e)}); continue
                if res == 'win':
                    key = (w,)
                    ref = ref or {}
                    if key in ref and ref[key] != vm.out: bad.append({'stack': ss, 'w': w, 'output': vm.out.decode('latin1'), 'smaller_stack_output': ref[key].decode('latin1')})
                    ref.setdefault(key, vm.out)
                elif not (res == 'error' and vm.flags[:1] == ['stack_overflow']):
                    bad.append({'stack': ss, 'w': w, 'end': res, 'flags': vm.flags})
                elif ref and (w,) in ref:
                    bad.append({'stack': ss, 'w': w, 'problem': 'overflows at a larger stack than one that succeeded'})
    det = {'bound': '2 programs x 21 stack sizes x 2 word sizes on hidv.sphinx.svm', 'formula': 'completes at S => same output at every S\' > S; otherwise stack_overflow', 'count': n,
           'functions': ['hidc.codegen.generator.CodeGen.gen_func', 'hidc.codegen.generator.CodeGen.eval_expr']}
    if bad: det.update(model=bad[:3], replay={'reproduced': True, 'how': 'svm', 'observed': bad[0]})
    return [Result('C18/stack-size/monotone-bounded', BOUNDED_FAILED if bad else BOUNDED_OK, 'bounded:svm', time.time() - t0, (), det)]


def tasks(tier):
    P = ('C18',)
    return [task(MOD, 'ob_determinism', P, label='py/repro/determinism'),
            task(MOD, 'ob_hashseed_bounded', P, label='py/repro/hashseed-bounded', cost=6),
            task(MOD, 'ob_lint_only_raises', P, label='py/repro/lint'),
            task(MOD, 'ob_stack_size_uses', P, label='py/repro/stack-size-uses'),
            task(MOD, 'ob_stack_monotone_bounded', P, label='py/repro/stack-monotone-bounded', cost=8)]
