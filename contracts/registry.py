"""All contract modules; each exposes tasks(tier) -> list[hidv.oblig.Task]."""
import importlib

MODULES = [
    "contracts.py_errors",
    "contracts.py_repro",
    "contracts.py_lexer",
    "contracts.py_types",
    "contracts.py_typed",
    "contracts.py_tracker",
    "contracts.lem_call",
    "contracts.lem_time",
    "contracts.lem_guard",
    "contracts.lem_global",
    "contracts.lem_entry",
    "contracts.lem_array",
    "contracts.lem_stmt",
    "contracts.lem_block",
    "contracts.lem_stdlib",
    "contracts.py_grammar",
    "contracts.py_fold",
    "contracts.py_asm",
    "contracts.lem_expr",
]


def all_tasks(tier):
    out = []
    for m in MODULES:
        out += importlib.import_module(m).tasks(tier)
    return out
