"""C14: compile-time evaluation commutes with the run-time semantics.

For every foldable operator class and literal cast of hidc/ast the *real* `simplify()` / `cast()` text is executed by pyvc
on symbolic integer literals (Python integers: unbounded), and each path is compared with the run-time twin, i.e. the very
ISA operation the C09 lemmas prove the generated code to execute (contracts/isa.py), applied to the wrapped operands:

    wrap_w(fold(a, b)) == isa_op_w(wrap_w a, wrap_w b)      and      fold raises  <=>  the run-time twin faults

Two obligations per operator and width: `in-range` (operands representable as signed words) and `all-integers`
(every Python integer a literal or an earlier fold can be).  The second one is known to fail for operators that are not
ring homomorphisms (see known_findings.json): the typechecker folds on unbounded integers without knowing the word size.
"""
from __future__ import annotations
import time
import z3
from hidv.oblig import task, Result, DISCHARGED, FAILED, UNDECIDED
from hidv.pyvc import core as V
from contracts import isa

MOD = 'contracts.py_fold'


def _mods():
    from hidc import ast
    from hidc.ast import operators, expressions
    from hidc.lexer import Span, Cursor
    from hidc.errors import TypeCheckError
    return ast, operators, expressions, Span(Cursor(0, 0), Cursor(0, 1)), TypeCheckError


def c_int(it, x=0, *a):
    return x if isinstance(x, V.ZInt) else int(x, *a)


def c_bool(it, x=False):
    if isinstance(x, V.ZBool): return bool(x)          # forks
    if isinstance(x, V.ZInt): return bool(x)
    return bool(x)


def prove(cond, goal):
    s = z3.Solver(); s.set('timeout', 20000); s.add(*cond); s.add(z3.Not(goal))
    r = s.check()
    if r == z3.unsat: return 'proved', None
    if r == z3.sat: return 'cex', s.model()
    return 'unknown', s.reason_unknown()


def signed_range(x, w):
    h = 1 << (8 * w - 1)
    return z3.And(x >= -h, x < h)


RUNTIME = {
    'Add': ('arith', 'add'), 'Sub': ('arith', 'sub'), 'Mul': ('arith', 'mul'), 'Div': ('arith', 'div'), 'Mod': ('arith', 'mod'),
    'Lt': ('cmp', 'lt'), 'Le': ('cmp', 'le'), 'Gt': ('cmp', 'gt'), 'Ge': ('cmp', 'ge'), 'Eq': ('cmp', 'eq'), 'Ne': ('cmp', 'ne'),
    'Pos': ('un', 'pos'), 'Neg': ('un', 'neg'),
}


def runtime_value(cls, a, b, w):
    """value the generated code computes at run time (C09 lemmas) on the wrapped literals, as a word in [0,M); and fault condition"""
    m = isa.M(w)
    kind, op = RUNTIME[cls]
    wa = a % m; wb = b % m if b is not None else None
    if kind == 'arith':
        fault = (wb == 0) if op in ('div', 'mod') else z3.BoolVal(False)
        return isa.arith(op, wa, wb, w, interpret=('div', 'mod', 'mul')), fault
    if kind == 'cmp':
        sa, sb = isa.sx(wa, m), isa.sx(wb, m)
        rel = {'lt': sa < sb, 'le': sa <= sb, 'gt': sa > sb, 'ge': sa >= sb, 'eq': sa == sb, 'ne': sa != sb}[op]
        return z3.If(rel, 1, 0), z3.BoolVal(False)
    if op == 'pos': return wa, z3.BoolVal(False)
    return (-wa) % m, z3.BoolVal(False)


def witness_program(cls, av, bv):
    sym = {'Add': '+', 'Sub': '-', 'Mul': '*', 'Div': '/', 'Mod': '%', 'Lt': '<', 'Le': '<=', 'Gt': '>', 'Ge': '>=', 'Eq': '==', 'Ne': '!='}
    def lit(v): return f'({v})' if v >= 0 else f'(0 - {-v})'
    if cls in sym:
        return (f'empty @is_you(int a, int b) {{ writeln({lit(av)} {sym[cls]} {lit(bv)}); writeln(a {sym[cls]} b); }}', [av, bv])
    u = {'Pos': '+', 'Neg': '-'}[cls]
    return (f'empty @is_you(int a) {{ writeln({u}{lit(av)}); writeln({u}a); }}', [av])


def replay_program(src, args, w):
    """constant form and variable form of the same expression, compiled by the real compiler, run on the VM"""
    from hidv.sphinx import svm
    from hidc.errors import CompilerError
    try:
        res, vm = svm.run_hid(src, args=[str(x) for x in args], word_size=w)
    except CompilerError as e:
        return {'reproduced': None, 'how': 'constant form rejected at compile time', 'observed': str(e), 'program': src, 'args': args}
    out = vm.out.decode('latin1').split('\n')
    differs = len(out) >= 2 and out[0] != out[1]
    return {'reproduced': bool(differs) or res != 'win', 'how': 'constant form / variable form compiled by hidc and run on hidv.sphinx.svm',
            'program': src, 'args': args, 'observed': {'constant_form': out[0] if out else None, 'variable_form': out[1] if len(out) > 1 else None, 'end': res}}


def ob_fold_operator(cls, w):
    ast, operators, expressions, span, TypeCheckError = _mods()
    C = getattr(operators, cls)
    unary = issubclass(C, operators.Unary)
    boolean = issubclass(C, operators.BooleanOp)
    base = operators.BooleanOp if boolean else operators.ArithmeticOp
    f, node = V.get_function(('BooleanOp' if boolean else 'ArithmeticOp') + '.simplify', operators)
    a, b = z3.Int('a'), z3.Int('b')
    res = []
    fn = [f'hidc.ast.operators.{base.__name__}.simplify', f'hidc.ast.operators.{cls}.operate']

    def run(it):
        A = expressions.IntValue(V.ZInt(a), span)
        if unary:
            node_ = C(span, A)
        else:
            node_ = C(span, A, expressions.IntValue(V.ZInt(b), span))
        return it.call_function(f, node, (node_,), {})
    t0 = time.time()
    try:
        paths = V.explore(run, interp_factory=lambda: V.Interp(contracts={int: c_int, bool: c_bool}))
    except V.OutsideSubset as e:
        return [Result(f'C14/fold/{cls}/w{w}/{r}', UNDECIDED, 'pyvc', time.time() - t0, (), {'message': f'outside subset: {e}', 'functions': fn})
                for r in ('in-range', 'all-integers')]
    rv, fault = runtime_value(cls, a, None if unary else b, w)
    m = isa.M(w)
    for rng in ('in-range', 'all-integers'):
        t1 = time.time()
        pre = [signed_range(a, w)] + ([] if unary else [signed_range(b, w)]) if rng == 'in-range' else []
        verdict = DISCHARGED; det = {'functions': fn, 'paths': len(paths),
                                     'formula': f'forall a,b ({rng}): wrap(fold_{cls}(a,b)) == isa_{RUNTIME[cls][1]}(wrap a, wrap b); fold raises <=> run-time fault'}
        for pr in paths:
            if pr.outcome == 'raise':
                if not isinstance(pr.value, TypeCheckError):
                    verdict = FAILED; det.update(message=f'folding raises {type(pr.value).__name__}: {pr.value}', replay={'reproduced': None}); break
                goal = fault            # rejected at compile time only if the run-time twin faults
            elif pr.outcome == 'return':
                v = pr.value
                if isinstance(v, expressions.BoolValue):
                    val = z3.IntVal(1 if v.data else 0)
                elif isinstance(v, expressions.IntValue):
                    d = v.data
                    val = (d.t if isinstance(d, V.ZInt) else z3.IntVal(int(d))) % m
                else:
                    verdict = UNDECIDED; det.update(message=f'simplify returned {type(v).__name__} (no folding happened?)'); break
                goal = z3.And(z3.Not(fault), val == rv)
            else:
                verdict = UNDECIDED; det.update(message=f'path outcome {pr.outcome}'); break
            ans, mdl = prove(pre + pr.cond, goal)
            if ans == 'unknown':
                verdict = UNDECIDED; det.update(message=f'solver: {mdl}'); break
            if ans == 'cex':
                av = mdl.eval(a, model_completion=True).as_long(); bvv = mdl.eval(b, model_completion=True).as_long()
                src, args = witness_program(cls, av, bvv)
                verdict = FAILED
                det.update(model={'a': av, 'b': bvv, 'path': pr.outcome}, replay=replay_program(src, args, w))
                break
        res.append(Result(f'C14/fold/{cls}/w{w}/{rng}', verdict, 'pyvc+z3', time.time() - t1, (), det))
    return res


def ob_casts(w):
    """literal casts: IntValue.cast(BYTE/BOOL/INT), BoolValue.cast, StringValue.cast"""
    ast, operators, expressions, span, TypeCheckError = _mods()
    from hidc.ast import DataType
    res = []
    a = z3.Int('a'); m = isa.M(w)
    f, node = V.get_function('IntValue.cast', expressions)
    fn = ['hidc.ast.expressions.IntValue.cast']
    for target, rt, nm in ((DataType.BYTE, (a % m) % 256, 'IntValue.cast(byte)'), (DataType.BOOL, z3.If((a % m) != 0, 1, 0), 'IntValue.cast(bool)'),
                           (DataType.INT, a % m, 'IntValue.cast(int)')):
        def run(it, target=target):
            return it.call_function(f, node, (expressions.IntValue(V.ZInt(a), span), target), {})
        t0 = time.time()
        try:
            paths = V.explore(run, interp_factory=lambda: V.Interp(contracts={int: c_int, bool: c_bool}))
        except V.OutsideSubset as e:
            res.append(Result(f'C14/cast/{nm}/w{w}/in-range', UNDECIDED, 'pyvc', time.time() - t0, (), {'message': str(e), 'functions': fn})); continue
        for rng in ('in-range', 'all-integers'):
            t1 = time.time()
            pre = [signed_range(a, w)] if rng == 'in-range' else []
            verdict = DISCHARGED
            det = {'functions': fn, 'paths': len(paths),
                   'formula': f'forall a ({rng}): the literal {nm} yields denotes the value the run-time cast computes from wrap(a) (byte literals canonical: 0..255)'}
            for pr in paths:
                if pr.outcome != 'return':
                    verdict = FAILED; det.update(message=f'{nm} raises {pr.value!r}', replay={'reproduced': None}); break
                v = pr.value; d = v.data
                if isinstance(v, expressions.BoolValue):
                    val = z3.IntVal(1 if d else 0)
                elif target == DataType.BYTE:
                    val = d.t if isinstance(d, V.ZInt) else z3.IntVal(int(d))          # a byte literal must be canonical
                else:
                    val = (d.t if isinstance(d, V.ZInt) else z3.IntVal(int(d))) % m
                ans, mdl = prove(pre + pr.cond, val == rt)
                if ans == 'unknown':
                    verdict = UNDECIDED; det.update(message=str(mdl)); break
                if ans == 'cex':
                    av = mdl.eval(a, model_completion=True).as_long()
                    verdict = FAILED
                    lit = f'({av})' if av >= 0 else f'(0 - {-av})'
                    tname = {DataType.BYTE: 'byte', DataType.BOOL: 'bool', DataType.INT: 'int'}[target]
                    src = f'empty @is_you(int a) {{ writeln(({lit} is {tname}) is int); writeln((a is {tname}) is int); }}'
                    det.update(model={'a': av}, replay=replay_program(src, [av], w)); break
            res.append(Result(f'C14/cast/{nm}/w{w}/{rng}', verdict, 'pyvc+z3', time.time() - t1, (), det))
    # finite ones: complete enumeration on the real methods
    t0 = time.time(); bad = []
    for bval in (False, True):
        bv_ = expressions.BoolValue(bval, span)
        if bv_.cast(DataType.INT).data != int(bval) or bv_.cast(DataType.BYTE).data != int(bval): bad.append(('BoolValue.cast', bval))
        for cls, tt in (('Not', lambda x: not x),):
            r = getattr(operators, cls)(span, bv_).simplify()
            if r.data != tt(bval): bad.append((cls, bval))
        for b2 in (False, True):
            for cls, tt in (('And', lambda x, y: x and y), ('Or', lambda x, y: x or y), ('Eq', lambda x, y: x == y), ('Ne', lambda x, y: x != y)):
                r = getattr(operators, cls)(span, bv_, expressions.BoolValue(b2, span)).simplify()
                if not isinstance(r, expressions.BoolValue) or r.data != tt(bval, b2): bad.append((cls, bval, b2))
    for sdata in (b'', b'x', b'\x00'):
        if expressions.StringValue(sdata, span).cast(DataType.BOOL).data != (len(sdata) != 0): bad.append(('StringValue.cast(bool)', sdata))
    det = {'formula': 'truth tables of and/or/not/==/!= on bool literals, BoolValue.cast, StringValue.cast(bool) (non-empty)', 'domain': 2 + 2 + 16 + 3,
           'functions': ['hidc.ast.operators.BooleanOp.simplify', 'hidc.ast.expressions.BoolValue.cast', 'hidc.ast.expressions.StringValue.cast']}
    if bad: det.update(model=[repr(x) for x in bad[:5]], replay={'reproduced': True, 'how': 'real methods evaluated by CPython'})
    res.append(Result(f'C14/fold/bool-literals', FAILED if bad else DISCHARGED, 'enum', time.time() - t0, (), det))
    return res


def ob_effects():
    """folding never drops an evaluation the source semantics performs: for every operator class and every cast, with each operand either a
    literal or a non-constant expression (whose evaluation may have effects: a call), the result of the real evaluate()/simplify() still
    contains every non-constant operand that README says is evaluated (both operands of arithmetic, comparison and `??`; the left operand of
    and/or always, the right one unless the left literal already decides the result; the operand of a unary operator or cast)."""
    import dataclasses as dc, itertools
    ast, operators, expressions, SPAN, TCE = _mods()
    from hidc.ast import DataType as DT
    from hidc.ast.program import builtin_stubs
    from hidc.lexer.tokens import Ident
    t0 = time.time(); bad = []; n = 0

    def contains(tree, node):
        if tree is node: return True
        if dc.is_dataclass(tree) and not isinstance(tree, type):
            for f in dc.fields(tree):
                v = getattr(tree, f.name, None)
                if isinstance(v, (list, tuple)):
                    if any(contains(x, node) for x in v): return True
                elif contains(v, node): return True
        return False

    def env_with():
        env = ast.Environment.empty(); env.add_funcs(builtin_stubs)
        for nm, t in (('gi', DT.INT), ('gb', DT.BOOL), ('gy', DT.BYTE)):
            fd = ast.FuncDeclaration(SPAN, t, Ident(nm), (), ast.CodeBlock((ast.ReturnStatement(SPAN, {DT.INT: ast.IntValue(1, SPAN), DT.BOOL: ast.BoolValue(True, SPAN),
                                                                                                       DT.BYTE: ast.ByteValue(1, SPAN)}[t]),), SPAN, False))
            env.add_funcs([fd])
        return env.new_child(DT.EMPTY)

    def operand(kind, t):
        if kind == 'lit':
            return {DT.INT: ast.IntValue(5, SPAN), DT.BOOL: None, DT.BYTE: ast.ByteValue(5, SPAN)}[t]
        return ast.FuncCall(Ident({DT.INT: 'gi', DT.BOOL: 'gb', DT.BYTE: 'gy'}[t]), (), SPAN)

    binary = [(c, DT.INT) for c in (ast.Add, ast.Sub, ast.Mul, ast.Div, ast.Mod, ast.Lt, ast.Le, ast.Gt, ast.Ge, ast.Eq, ast.Ne, ast.Speculation)] + \
             [(ast.And, DT.BOOL), (ast.Or, DT.BOOL), (ast.Eq, DT.BOOL), (ast.Ne, DT.BOOL), (ast.Speculation, DT.BOOL), (ast.Speculation, DT.BYTE)]
    for cls, t in binary:
        lits = {DT.INT: [ast.IntValue(5, SPAN), ast.IntValue(0, SPAN)], DT.BYTE: [ast.ByteValue(5, SPAN), ast.ByteValue(0, SPAN)], DT.BOOL: [ast.BoolValue(True, SPAN), ast.BoolValue(False, SPAN)]}[t]
        choices = [('lit', l) for l in lits] + [('call', None), ('var', None)]
        for (lk, lv), (rk, rv) in itertools.product(choices, repeat=2):
            n += 1
            mkop = lambda k_, v_, nm: v_ if k_ == 'lit' else (operand('call', t) if k_ == 'call' else ast.VariableLookup(ast.Variable(nm, t, False), SPAN))
            left = mkop(lk, lv, 'vl'); right = mkop(rk, rv, 'vr')
            if 'var' in (lk, rk):
                # a run-time variable as operand: nothing to drop, but a division / modulo whose divisor is not a constant must survive folding
                # as a division (it is what raises division_by_zero at run time), whatever the other operand is
                try:
                    env_v = env_with()
                    from hidc.lexer import Cursor as _C
                    for nm_ in ('vl', 'vr'):
                        env_v.vars[nm_] = ast.Declaration(ast.Variable(nm_, t, False), operand('call', t), _C(0, 0))
                    res = cls(SPAN, left, right).evaluate(env_v)
                except TCE:
                    continue
                if cls in (ast.Div, ast.Mod) and rk != 'lit' and not any(isinstance(x, cls) for x in walk(res)):
                    bad.append({'expression': f'{"literal " + str(lv.data) if lk == "lit" else lk} {cls.__name__} {rk}', 'folded_to': repr(res)[:120],
                                'problem': 'the division is folded away although the divisor is only known at run time (division_by_zero can no longer be raised)'})
                for k_, node in (('left', left), ('right', right)):
                    if (lk if k_ == 'left' else rk) == 'var' and cls not in (ast.And, ast.Or) and not any(x is node or (isinstance(x, ast.VariableLookup) and x.var.name == node.var.name) for x in walk(res)):
                        if not (cls is ast.Speculation and k_ == 'right'):
                            bad.append({'expression': f'{lk} {cls.__name__} {rk}', 'folded_to': repr(res)[:120], 'dropped_operand': k_})
                continue
            if cls in (ast.Div, ast.Mod) and rk == 'lit' and rv.data == 0 and lk == 'lit':
                continue          # literal division by zero is rejected at compile time (C05/C14 fault clause, separate obligation)
            try:
                res = cls(SPAN, left, right).evaluate(env_with())
            except TCE as e:
                if cls in (ast.Div, ast.Mod) and rk == 'lit' and rv.data == 0: continue
                bad.append({'expression': f'{lk} {cls.__name__} {rk} ({t})', 'raises': repr(e)}); continue
            need = []
            if lk == 'call': need.append(('left', left))
            if rk == 'call':
                skipped = (cls is ast.And and lk == 'lit' and lv.data is False) or (cls is ast.Or and lk == 'lit' and lv.data is True)
                if not skipped: need.append(('right', right))
            for side, node in need:
                # evaluate() rebuilds calls: compare by the call's identity after evaluation = same callee name inside the result
                found = any(isinstance(x, ast.FuncCall) for x in walk(res)) if True else False
                if not found:
                    bad.append({'expression': f'{"literal " + str(lv.data) if lk == "lit" else "call()"} {cls.__name__} {"literal " + str(rv.data) if rk == "lit" else "call()"}',
                                'folded_to': repr(res)[:120], 'dropped_operand': side}); break
            # number of calls kept == number of operands that must be evaluated
            kept = sum(1 for x in walk(res) if isinstance(x, ast.FuncCall))
            if kept != len(need) and not any(b.get('expression', '').startswith(('literal', 'call')) and b is bad[-1] for b in bad[-1:]):
                if kept < len(need):
                    bad.append({'expression': f'{lk} {cls.__name__} {rk} ({t})', 'folded_to': repr(res)[:120], 'calls_kept': kept, 'calls_the_source_evaluates': len(need)})
    for cls in (ast.Pos, ast.Neg, ast.Not):
        n += 1
        t = DT.BOOL if cls is ast.Not else DT.INT
        res = cls(SPAN, operand('call', t)).evaluate(env_with())
        if not any(isinstance(x, ast.FuncCall) for x in walk(res)): bad.append({'expression': f'{cls.__name__} call()', 'folded_to': repr(res)[:120]})
    for src_t, dst_t in itertools.product((DT.INT, DT.BYTE, DT.BOOL), repeat=2):
        n += 1
        try:
            res = ast.Is(SPAN, operand('call', src_t), dst_t).evaluate(env_with())
        except TCE:
            continue
        if not any(isinstance(x, ast.FuncCall) for x in walk(res)): bad.append({'expression': f'call():{src_t} is {dst_t}', 'folded_to': repr(res)[:120]})
    det = {'formula': 'evaluate()/simplify() keeps every non-constant operand the source semantics evaluates (both operands of arithmetic, comparison, ??; and/or short-circuit only on a deciding left literal)',
           'domain': n, 'functions': ['hidc.ast.operators.Speculation.simplify', 'hidc.ast.operators.BooleanOp.simplify', 'hidc.ast.operators.ArithmeticOp.simplify',
                                      'hidc.ast.operators.LogicalOp.evaluate', 'hidc.ast.operators.CompareOp.evaluate', 'hidc.ast.operators.EqualityOp.evaluate',
                                      'hidc.ast.operators.Speculation.evaluate', 'hidc.ast.operators.Is.evaluate']}
    if bad:
        det.update(model=bad[:5], replay={'reproduced': True, 'how': 'real evaluate() on the expression', 'observed': bad[0]})
    return [Result('C14/fold/effects-preserved', FAILED if bad else DISCHARGED, 'enum', time.time() - t0, (), det)]


def ob_cast_chains(w):
    """casts of *non-constant* expressions: for every chain of up to three casts over {int, byte, bool} starting from a variable of each of these
    types, the tree the real Expression.cast builds denotes the composition of the documented conversions (README "Types": int->byte keeps the low
    8 bits, ->bool is `!= 0`, byte/bool->int zero-extends) for every value of the variable -- so the run-time twin of a folded cast chain is the
    same function the literal casts fold (C14), whatever simplification cast() applies"""
    import itertools
    ast, operators, expressions, SPAN, TCE = _mods()
    from hidc.ast import DataType as DT
    t0 = time.time(); bad = []; n = 0
    M = 1 << (8 * w)
    x = z3.Int('x')
    rng = {DT.INT: z3.And(x >= 0, x < M), DT.BYTE: z3.And(x >= 0, x < 256), DT.BOOL: z3.And(x >= 0, x <= 1)}

    def conv(v, a, b):
        if a == b: return v
        if b == DT.BOOL: return z3.If(v != 0, z3.IntVal(1), z3.IntVal(0))
        if b == DT.BYTE: return v % 256 if a == DT.INT else v
        return v            # byte/bool -> int: zero extension

    def ev(tree, leaf):
        if tree is leaf: return x
        if isinstance(tree, ast.IntToByte): return ev(tree.expr, leaf) % 256
        if isinstance(tree, ast.IntToBool): return z3.If(ev(tree.expr, leaf) != 0, z3.IntVal(1), z3.IntVal(0))
        if isinstance(tree, (ast.ByteToInt, ast.BoolToByte)): return ev(tree.expr, leaf)
        raise ValueError(f'unexpected node {type(tree).__name__} in a cast chain')
    types = (DT.INT, DT.BYTE, DT.BOOL)
    for t in types:
        for L_ in (1, 2, 3):
          for chain in itertools.product(types, repeat=L_):
            for with_coerce in ((False, True) if chain[-1] == DT.BYTE else (False,)):
                n += 1
                leaf = ast.VariableLookup(ast.Variable('v', t, False), SPAN)
                tree = leaf; want = x; cur = t
                try:
                    for t2 in chain:
                        tree = tree.cast(t2); want = conv(want, cur, t2); cur = t2
                    # the implicit conversion the typechecker applies where an int is expected (byte -> int) after the explicit casts
                    if with_coerce:
                        tree = tree.coerce(DT.INT); want = conv(want, cur, DT.INT); cur = DT.INT
                    got = ev(tree, leaf)
                    if tree.type != cur:
                        bad.append({'chain': f'{t} -> ' + ' -> '.join(map(str, chain)), 'problem': f'result type {tree.type}'}); continue
                except (TCE, ValueError) as e:
                    bad.append({'chain': f'{t} -> ' + ' -> '.join(map(str, chain)), 'raises': repr(e)}); continue
                verdict, model = prove([rng[t]], got == want)
                if verdict != 'proved':
                    bad.append({'chain': f'v:{t} is ' + ' is '.join(map(str, chain)), 'tree': repr(tree)[:160].replace('Span', ''), 'value_of_v': model[x].as_long() if verdict == 'cex' and model[x] is not None else None,
                                'verdict': verdict})
    det = {'formula': 'forall v: value(tree built by the real cast chain) == conv_n(...conv_1(v))  (int->byte: mod 256; ->bool: != 0; widening: identity)', 'domain': n,
           'functions': ['hidc.ast.expressions.Expression.cast', 'hidc.ast.expressions.TypeCast.cast']}
    if bad:
        rep = {'reproduced': None}
        w0 = next((b for b in bad if b.get('value_of_v') is not None), None)
        if w0:
            from hidv.sphinx import svm
            chain = w0['chain']
            t_src = chain.split(':')[1].split(' ')[0]
            expr = '(' + 'v is '.join(['', '']) + ')' if False else None
            casts = chain.split(' is ')[1:]
            e = 'v'
            for c_ in casts: e = f'({e} is {c_})'
            last = casts[-1]
            show = {'int': f'write({e});', 'byte': f'write({e} is int);', 'bool': f'write({e});'}[last]
            decl = {'int': 'int v = k;', 'byte': 'byte v = k is byte;', 'bool': 'bool v = k is bool;'}[t_src]
            src = f'empty @is_you(int k) {{ {decl} {show} }}'
            vv = w0['value_of_v']
            xv = z3.IntVal(vv); cur = {'int': DT.INT, 'byte': DT.BYTE, 'bool': DT.BOOL}[t_src]; val = xv
            for c_ in casts:
                t2 = {'int': DT.INT, 'byte': DT.BYTE, 'bool': DT.BOOL}[c_]; val = conv(val, cur, t2); cur = t2
            val = z3.simplify(val).as_long()
            wanttxt = ('true' if val else 'false') if last == 'bool' else str(val if val < M // 2 else val - M)
            try:
                res, vm = svm.run_hid(src, args=[str(vv)], word_size=w)
                rep = {'reproduced': vm.out.decode('latin1') != wanttxt, 'how': 'hidc-compiled program on hidv.sphinx.svm', 'program': src, 'argument': vv,
                       'printed': vm.out.decode('latin1'), 'documented': wanttxt}
            except Exception as ex:
                rep = {'reproduced': None, 'how': f'witness did not run: {ex!r}', 'program': src}
        det.update(model=bad[:5], replay=rep)
    return [Result(f'C14/cast-chains/w{w}/non-constant', FAILED if bad else DISCHARGED, 'enum+z3', time.time() - t0, (), det)]


def walk(tree):
    import dataclasses as dc
    yield tree
    if dc.is_dataclass(tree) and not isinstance(tree, type):
        for f in dc.fields(tree):
            v = getattr(tree, f.name, None)
            if isinstance(v, (list, tuple)):
                for x in v:
                    yield from walk(x)
            elif dc.is_dataclass(v):
                yield from walk(v)


def tasks(tier):
    out = [task(MOD, 'ob_effects', ('C14', 'C01', 'C05'), label='py/fold/effects', cost=1)]
    for w in ((2,) if tier == 'quick' else (2, 3, 4)):
        out.append(task(MOD, 'ob_cast_chains', ('C14', 'C09'), label=f'py/fold/cast-chains/w{w}', w=w, cost=1))
    widths = (2,) if tier == 'quick' else (2, 3, 4)
    for w in widths:
        for cls in RUNTIME:
            out.append(task(MOD, 'ob_fold_operator', ('C14',), label=f'py/fold/{cls}/w{w}', cls=cls, w=w, cost=3, _isolate=(cls == 'Mul')))
        out.append(task(MOD, 'ob_casts', ('C14',), label=f'py/fold/casts/w{w}', w=w))
    return out
