"""C01 / C09 (front end): the typed tree that evaluate() builds denotes the documented value.

The code-generation lemmas start from typed trees built by hand; the tree the *typechecker* builds for a source expression (where it inserts
widening / narrowing / truthiness conversions, how it desugars) is checked here:

  for every unary / binary operator and every combination of operand types the typechecker accepts (operands: plain non-constant expressions of
  type int, byte, bool), the tree returned by the real evaluate() -- interpreted with the reference semantics of the typed node classes
  (the same semantics the code-generation lemmas prove the emitted code to have: contracts/isa.py) -- equals, for all operand values, the value
  README "Operators" prescribes for the *source* expression (operands promoted to int for arithmetic and ordering, bool/bool equality on the
  truth values, truthiness for and/or/not, `x is T` conversions), and
  for every assignment-like position (declaration, assignment, return, argument) the stored value is the source value converted to the target type.
"""
from __future__ import annotations
import itertools, time
import z3
from hidv.oblig import task, Result, DISCHARGED, FAILED
from contracts import isa

MOD = 'contracts.py_typed'


def mods():
    from hidc import ast
    from hidc.ast import DataType
    from hidc.errors import TypeCheckError
    from hidc.lexer import Span, Cursor
    return ast, DataType, TypeCheckError, Span(Cursor(0, 0), Cursor(0, 1))


class Leaf:
    _cls = None

    @classmethod
    def make(cls, name, t):
        ast = mods()[0]
        if cls._cls is None:
            class PlainExpr(ast.Expression):
                def __init__(self, name, t): self.name = name; self._t = t
                type = property(lambda s: s._t)
                span = mods()[3]
                def evaluate(self, env): return self
                def __repr__(self): return f'<{self.name}:{self._t}>'
            cls._cls = PlainExpr
        return cls._cls(name, t)


def sem(tree, vals, w):
    """reference semantics of typed trees (value as a machine word / byte / 0-1), the semantics the code-generation lemmas use"""
    ast, DT, TCE, SPAN = mods()
    M = 1 << (8 * w)
    if isinstance(tree, Leaf._cls): return vals[tree.name]
    if isinstance(tree, ast.IntToByte): return sem(tree.expr, vals, w) % 256
    if isinstance(tree, ast.IntToBool): return z3.If(sem(tree.expr, vals, w) != 0, z3.IntVal(1), z3.IntVal(0))
    if isinstance(tree, (ast.ByteToInt, ast.BoolToByte)): return sem(tree.expr, vals, w)
    if isinstance(tree, ast.BinaryArithmeticOp):
        op = {ast.Add: 'add', ast.Sub: 'sub', ast.Mul: 'mul', ast.Div: 'div', ast.Mod: 'mod'}[type(tree)]
        return isa.arith(op, sem(tree.left, vals, w), sem(tree.right, vals, w), w, ())
    if isinstance(tree, ast.Pos): return sem(tree.arg, vals, w)
    if isinstance(tree, ast.Neg): return (-sem(tree.arg, vals, w)) % M
    if isinstance(tree, ast.Not): return z3.If(sem(tree.arg, vals, w) == 0, z3.IntVal(1), z3.IntVal(0))
    if isinstance(tree, ast.And): return z3.If(z3.And(sem(tree.left, vals, w) != 0, sem(tree.right, vals, w) != 0), z3.IntVal(1), z3.IntVal(0))
    if isinstance(tree, ast.Or): return z3.If(z3.Or(sem(tree.left, vals, w) != 0, sem(tree.right, vals, w) != 0), z3.IntVal(1), z3.IntVal(0))
    if isinstance(tree, (ast.Lt, ast.Le, ast.Gt, ast.Ge, ast.Eq, ast.Ne)):
        a, b = isa.sx(sem(tree.left, vals, w), M), isa.sx(sem(tree.right, vals, w), M)
        c = {ast.Lt: a < b, ast.Le: a <= b, ast.Gt: a > b, ast.Ge: a >= b, ast.Eq: a == b, ast.Ne: a != b}[type(tree)]
        return z3.If(c, z3.IntVal(1), z3.IntVal(0))
    if isinstance(tree, ast.Speculation): return sem(tree.left, vals, w)
    raise ValueError(f'unexpected node {type(tree).__name__}')


def promote(v, t, DT):
    """README: byte and bool operands of arithmetic / ordering are used as the int with the same (non-negative) value"""
    return v


def conv(v, a, b, DT):
    if a == b: return v
    if b == DT.BOOL: return z3.If(v != 0, z3.IntVal(1), z3.IntVal(0))
    if b == DT.BYTE: return v % 256 if a == DT.INT else v
    return v


def prove(cond, goal):
    s = z3.Solver(); s.set('timeout', 20000); s.add(*cond); s.add(z3.Not(goal))
    r = s.check()
    return ('proved', None) if r == z3.unsat else (('cex', s.model()) if r == z3.sat else ('unknown', None))


def ob_operators(w):
    ast, DT, TCE, SPAN = mods()
    from hidc.ast.program import builtin_stubs
    t0 = time.time(); bad = []; n = 0
    M = 1 << (8 * w)
    x, y = z3.Int('x'), z3.Int('y')
    rng = lambda v, t: {DT.INT: z3.And(v >= 0, v < M), DT.BYTE: z3.And(v >= 0, v < 256), DT.BOOL: z3.And(v >= 0, v <= 1)}[t]
    types = (DT.INT, DT.BYTE, DT.BOOL)
    env = ast.Environment.empty(); env.add_funcs(builtin_stubs); env = env.new_child(DT.EMPTY)
    sx = lambda v: isa.sx(v, M)
    b2w = lambda c: z3.If(c, z3.IntVal(1), z3.IntVal(0))
    arith = {ast.Add: 'add', ast.Sub: 'sub', ast.Mul: 'mul', ast.Div: 'div', ast.Mod: 'mod'}
    order = {ast.Lt: lambda a, b: a < b, ast.Le: lambda a, b: a <= b, ast.Gt: lambda a, b: a > b, ast.Ge: lambda a, b: a >= b}
    for cls in list(arith) + list(order) + [ast.Eq, ast.Ne, ast.And, ast.Or, ast.Speculation]:
        for ta, tb in itertools.product(types, repeat=2):
            n += 1
            a, b = Leaf.make('x', ta), Leaf.make('y', tb)
            try:
                tree = cls(SPAN, a, b).evaluate(env)
            except TCE:
                # documented rejections: arithmetic / ordering on bool operands, mixed bool equality, ?? needs the right operand to coerce to the left type
                ok_reject = (cls in arith or cls in order) and DT.BOOL in (ta, tb)
                ok_reject = ok_reject or (cls in (ast.Eq, ast.Ne) and (ta == DT.BOOL) != (tb == DT.BOOL))
                ok_reject = ok_reject or (cls is ast.Speculation and not (ta == tb or (ta == DT.INT and tb == DT.BYTE)))
                if not ok_reject: bad.append({'expression': f'{ta} {cls.__name__} {tb}', 'problem': 'rejected'})
                continue
            vals = {'x': x, 'y': y}
            if cls in arith:
                want = isa.arith(arith[cls], x, y, w, ()); rt = DT.INT
            elif cls in order:
                want = b2w(order[cls](sx(x), sx(y))); rt = DT.BOOL
            elif cls in (ast.Eq, ast.Ne):
                eq = sx(x) == sx(y)
                want = b2w(eq if cls is ast.Eq else z3.Not(eq)); rt = DT.BOOL
            elif cls in (ast.And, ast.Or):
                want = b2w(z3.And(x != 0, y != 0) if cls is ast.And else z3.Or(x != 0, y != 0)); rt = DT.BOOL
            else:
                want = x; rt = ta
            try:
                got = sem(tree, vals, w)
            except ValueError as e:
                bad.append({'expression': f'{ta} {cls.__name__} {tb}', 'problem': str(e)}); continue
            if tree.type != rt:
                bad.append({'expression': f'{ta} {cls.__name__} {tb}', 'problem': f'result type {tree.type}, documented {rt}'}); continue
            pre = [rng(x, ta), rng(y, tb)] + ([y != 0] if cls in (ast.Div, ast.Mod) else [])
            verdict, model = prove(pre, got == want)
            if verdict != 'proved':
                bad.append({'expression': f'x:{ta} {cls.__name__} y:{tb}', 'typed_tree': repr(tree)[:200].replace('<Span 1:1 :: 1:2>', '..'), 'verdict': verdict,
                            'x': model[x].as_long() if model is not None and model[x] is not None else None, 'y': model[y].as_long() if model is not None and model[y] is not None else None})
    for cls in (ast.Pos, ast.Neg, ast.Not):
        for ta in types:
            n += 1
            try:
                tree = cls(SPAN, Leaf.make('x', ta)).evaluate(env)
            except TCE:
                if not (cls is not ast.Not and ta == DT.BOOL): bad.append({'expression': f'{cls.__name__} {ta}', 'problem': 'rejected'})
                continue
            want = {ast.Pos: x, ast.Neg: (-x) % M, ast.Not: b2w(x == 0)}[cls]
            verdict, model = prove([rng(x, ta)], sem(tree, {'x': x}, w) == want)
            if verdict != 'proved': bad.append({'expression': f'{cls.__name__} x:{ta}', 'typed_tree': repr(tree)[:160], 'verdict': verdict})
    det = {'formula': 'forall operand values: value(typed tree built by the real evaluate()) == value README prescribes for the source expression', 'domain': n,
           'functions': ['hidc.ast.operators.BinaryArithmeticOp.evaluate', 'hidc.ast.operators.CompareOp.evaluate', 'hidc.ast.operators.EqualityOp.evaluate',
                         'hidc.ast.operators.LogicalOp.evaluate', 'hidc.ast.operators.UnaryArithmeticOp.evaluate', 'hidc.ast.operators.Speculation.evaluate',
                         'hidc.ast.expressions.Expression.coerce', 'hidc.ast.expressions.Expression.cast']}
    if bad: det.update(model=bad[:5], replay={'reproduced': True, 'how': 'real evaluate() on the expression; the typed tree is shown', 'observed': bad[0]})
    return [Result(f'C01/typed-tree/w{w}/operators', FAILED if bad else DISCHARGED, 'enum+z3', time.time() - t0, (), det)]


def ob_positions(w):
    """assignment-like positions: the expression stored is the source value converted to the target type (or the statement is rejected)"""
    ast, DT, TCE, SPAN = mods()
    from hidc.ast.program import builtin_stubs
    from hidc.lexer import Cursor
    from hidc.lexer.tokens import Ident
    t0 = time.time(); bad = []; n = 0
    M = 1 << (8 * w)
    x = z3.Int('x')
    rng = lambda v, t: {DT.INT: z3.And(v >= 0, v < M), DT.BYTE: z3.And(v >= 0, v < 256), DT.BOOL: z3.And(v >= 0, v <= 1)}[t]
    types = (DT.INT, DT.BYTE, DT.BOOL)
    implicit_ok = lambda src, dst: src == dst or (src == DT.BYTE and dst == DT.INT)         # README: only byte -> int is implicit for non-literals

    def fresh():
        env = ast.Environment.empty(); env.add_funcs(builtin_stubs)
        return env
    for src, dst in itertools.product(types, repeat=2):
        for position in ('declaration', 'assignment', 'return', 'argument'):
            n += 1
            e = Leaf.make('x', src)
            try:
                if position == 'declaration':
                    env = fresh().new_child(DT.EMPTY)
                    stored = ast.Declaration(ast.Variable('v', dst, False), e, Cursor(0, 0)).evaluate(env).init
                elif position == 'assignment':
                    env = fresh().new_child(DT.EMPTY)
                    env.vars['v'] = ast.Declaration(ast.Variable('v', dst, False), Leaf.make('i', dst), Cursor(0, 0))
                    stored = ast.Assignment(ast.VariableLookup(ast.UnresolvedName('v'), SPAN), e).evaluate(env).expr
                elif position == 'return':
                    env = fresh().new_child(dst)
                    stored = ast.ReturnStatement(SPAN, e).evaluate(env).value
                else:
                    g = fresh()
                    body = ast.CodeBlock((), SPAN, False)
                    fd = ast.FuncDeclaration(SPAN, DT.EMPTY, Ident('callee'), (ast.Parameter(ast.Variable('p', dst, False), SPAN),), body)
                    g.add_funcs([fd])
                    env = g.new_child(DT.EMPTY)
                    stored = ast.FuncCall(Ident('callee'), (e,), SPAN).evaluate(env).args[0]
                accepted = True
            except TCE:
                accepted = False
            if accepted != implicit_ok(src, dst):
                bad.append({'position': f'{position}: {dst} <- {src}', 'accepted': accepted, 'documented': implicit_ok(src, dst)}); continue
            if not accepted: continue
            try:
                got = sem(stored, {'x': x}, w)
            except ValueError as ex:
                bad.append({'position': f'{position}: {dst} <- {src}', 'problem': str(ex)}); continue
            verdict, model = prove([rng(x, src)], got == conv(x, src, dst, DT))
            if verdict != 'proved' or stored.type != dst:
                bad.append({'position': f'{position}: {dst} <- {src}', 'stored_tree': repr(stored)[:160], 'verdict': verdict, 'type': str(stored.type)})
    det = {'formula': 'declaration / assignment / return / argument: accepted iff the source type converts implicitly; the stored tree denotes the converted value', 'domain': n,
           'functions': ['hidc.ast.statements.Declaration.evaluate', 'hidc.ast.statements.Assignment.evaluate', 'hidc.ast.statements.ReturnStatement.evaluate',
                         'hidc.ast.expressions.FuncCall.evaluate', 'hidc.ast.expressions.Expression.coerce']}
    if bad: det.update(model=bad[:5], replay={'reproduced': True, 'how': 'real evaluate() on the statement', 'observed': bad[0]})
    return [Result(f'C01/typed-tree/w{w}/assignment-positions', FAILED if bad else DISCHARGED, 'enum+z3', time.time() - t0, (), det)]


def tasks(tier):
    out = []
    for w in ((2,) if tier == 'quick' else (2, 3, 4)):
        out.append(task(MOD, 'ob_operators', ('C01', 'C09', 'C07'), label=f'py/typed/operators/w{w}', w=w, cost=2))
        out.append(task(MOD, 'ob_positions', ('C01', 'C07'), label=f'py/typed/positions/w{w}', w=w, cost=1))
    return out
