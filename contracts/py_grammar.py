"""Contracts on the grammar rules of hidc/parser/grammar.py (C06 context rules, C11 precedence ladder).

Each rule is an `async def` coroutine; pyvc interprets its text.  `await X` is an *oracle call*: the awaited object is
a real rules.Exact/Instance/OneOf/Parser/CurrentNode/Teleport object (constructed by the real code), the answer is chosen
nondeterministically (None, or a lexeme with any token the matcher accepts, or the callee's result), all choices are
explored, and every oracle call is recorded on the path's event trace.  Contracts speak about that trace: *which rule
was requested with which context, in which order*, and when the rule raises.  The block context is enumerated over
all 28 constructible BlockContext values (the real IntFlag objects: nothing about & | ~ `in` _missing_ is modelled):
finite domain, complete.

The context rules are transcribed from the property statement / README "Summary of what's allowed in different blocks":
  func   calls allowed at all            you     try blocks, ??, calls of you-functions allowed
  defeat calls of defeat functions and preempt allowed      in_try  inside a try body      loop  break/continue allowed
"""
from __future__ import annotations
import time, inspect, functools, ast as pyast
from hidv.oblig import task, Result, DISCHARGED, FAILED, UNDECIDED, BOUNDED_OK, BOUNDED_FAILED
from hidv.pyvc import core as V

MOD = 'contracts.py_grammar'


def G():
    import hidc.parser.grammar as g
    import hidc.parser.rules as r
    import hidc.lexer.tokens as t
    import hidc.errors as e
    import hidc.ast as a
    return g, r, t, e, a


def contexts():
    """the well-formed contexts: you => func, defeat => func, in_try => defeat, never you and defeat together
    (5 shapes x loop = 10 of the 28 constructible raw values; the entry contexts NONE/FUNC/YOU/DEFEAT are well-formed and
    the threading contract shows every context handed down from a well-formed one is well-formed: closure)"""
    g = G()[0]
    return [g.BlockContext(v | l) for v in (0, 1, 3, 5, 13) for l in (0, 16)]


def bits(ctx):
    v = int(ctx)
    return {'func': bool(v & 1), 'you': (v & 3) == 3, 'defeat': (v & 5) == 5, 'in_try': (v & 13) == 13, 'loop': bool(v & 16)}


# ---- the oracle --------------------------------------------------------------------------------------------------------
class Oracle:
    def __init__(self, assignable_choice=False, force_success=False):
        self.assignable_choice = assignable_choice
        self.force_success = force_success     # every await succeeds (used for the "accepted" direction)

    def span(self):
        from hidc.lexer import Span, Cursor
        return Span(Cursor(0, 0), Cursor(0, 1))          # spans are real objects (CompilerError inspects them)

    def lexeme(self, tok):
        return V.Sym('lexeme', token=tok, span=self.span())

    def __call__(self, it, obj):
        g, r, t, e, a = G()
        p = V.P()
        if isinstance(obj, V.CoroCall):
            node = it.source_of(obj.f)
            if node is None:
                raise V.OutsideSubset(f'no source for coroutine {obj.f}')
            p.event('coro', obj.f.__name__)
            return it.call_function(obj.f, node, obj.args, dict(obj.kwargs))
        if isinstance(obj, r.CurrentNode):
            p.event('current-node')
            eof = (not self.force_success) and p.choose(2) == 1
            return V.Sym('node', truthy=not eof, head=V.Sym('head', token=V.Sym('tok'), span=self.span()), value=self.span().start)
        if isinstance(obj, r.Teleport):
            p.event('teleport', obj.node); return None
        if isinstance(obj, r.Match):
            if isinstance(obj, r.Exact):
                cands = [obj.token]; desc = ('exact', obj.token)
            elif isinstance(obj, r.OneOf):
                cands = list(obj.tokens); desc = ('oneof', tuple(cands))
            elif isinstance(obj, r.Instance):
                T = obj.type; desc = ('instance', T)
                if T is t.Ident:
                    cands = [t.Ident('x', fl) for fl in t.Flavor]
                elif inspect.isclass(T) and issubclass(T, t.EnumToken):
                    cands = list(T)
                else:
                    cands = [V.Sym('tok:' + T.__name__, data=V.Sym('data'))]
            else:
                raise V.OutsideSubset(f'matcher {obj!r}')
            fail = (not self.force_success) and p.choose(2) == 1
            if fail:
                p.event('match', desc, None); return None
            tok = cands[p.choose(len(cands))] if len(cands) > 1 else cands[0]
            p.event('match', desc, tok)
            return self.lexeme(tok)
        if isinstance(obj, r.Parser):
            f = obj.consume
            if not isinstance(f, functools.partial):
                raise V.OutsideSubset(f'parser object without partial: {obj!r}')
            name = f.func.__name__
            fail = (not self.force_success) and p.choose(2) == 1
            p.event('rule', name, tuple(f.args), tuple(sorted(f.keywords.items())), not fail)
            if fail:
                return None
            if name == 'ps_ident':
                # result of ps_ident: an identifier lexeme whose flavour is in the allowed set (its own contract)
                allowed = list(f.args[0])
                if not allowed:
                    return None
                fl = allowed[p.choose(len(allowed))] if len(allowed) > 1 else allowed[0]
                return self.lexeme(t.Ident('x', fl))
            if self.assignable_choice and name.startswith('ps_expr') and p.choose(2) == 1:
                from hidc.lexer import Span, Cursor
                return a.VariableLookup(a.UnresolvedName('x'), Span(Cursor(0, 0), Cursor(0, 1)))
            return V.Sym('node:' + name, span=self.span(), preemptive=V.Sym('preemptive'), token=V.Sym('tok'), type=V.Sym('type'),
                         const=V.Sym('const'), origin=(name, tuple(f.args)))
        raise V.OutsideSubset(f'await of {obj!r}')


def explore_rule(name, args, kwargs=None, **okw):
    g = G()[0]
    f, node = V.get_function(name, g)
    kwargs = kwargs or {}

    def run(it):
        return it.call_function(f, node, tuple(args), dict(kwargs))
    return V.explore(run, interp_factory=lambda: V.Interp(on_await=Oracle(**okw), loop_bound=2))


def rule_calls(pr):
    return [(e[1], e[2], dict(e[3])) for e in pr.trace if e[0] == 'rule']


def matched(pr):
    return [e[2] for e in pr.trace if e[0] == 'match' and e[2] is not None]


# ---- C06 -------------------------------------------------------------------------------------------------------------------
CTX_RULES = ['ps_code_block', 'ps_block', 'ps_stmt', 'ps_plain_stmt', 'ps_assignment', 'ps_vdecl', 'ps_expr', 'ps_expr0', 'ps_expr1',
             'ps_expr2', 'ps_expr3', 'ps_expr4', 'ps_expr5', 'ps_expr6', 'ps_expr7', 'ps_expr8', 'ps_func_call']


def expected_ctx_after(rule, ctx, toks, nth_ctx_call, callee):
    """context the property prescribes for the nth sub-rule call that carries a context, given the keyword tokens matched so far"""
    g, r, t, e, a = G()
    B = g.BlockContext
    b = bits(ctx)
    v = int(ctx)
    if rule == 'ps_block':
        kw = [x for x in toks if isinstance(x, t.BlockToken)]
        first = kw[0] if kw else None
        if first in (t.BlockToken.WHILE, t.BlockToken.FOR) and callee == 'ps_block':
            return v | 16                                   # loop bodies: loop' = true, rest unchanged
        if first == t.BlockToken.TRY and callee == 'ps_block':
            if t.BlockToken.UNDO in kw or t.BlockToken.STOP in kw:
                return v                                    # handler: identity
            # try body: not you, defeat allowed, in_try, calls allowed; loop unchanged
            return (v & 16) | 1 | 4 | 8
        return v
    if rule == 'ps_expr':
        if t.OpToken.SPECULATION in toks and callee == 'ps_expr8' and nth_ctx_call >= 1:
            # both operands of ??: only ordinary calls: not you, not defeat, not in_try; loop unchanged
            return (v & 16) | 1
        return v
    return v


def ob_context_threading(rule):
    """every sub-rule requested by `rule` gets the context the property prescribes; no unconstructible context; ctx never rebound"""
    g, r, t, e, a = G()
    t0 = time.time()
    fn = [f'hidc.parser.grammar.{rule}']
    bad = []; npaths = 0; nevents = 0
    for ctx in contexts():
        extra = {'assignable_choice': True} if rule == 'ps_assignment' else {}
        try:
            paths = explore_rule(rule, [ctx], **extra)
        except V.OutsideSubset as ex:
            return [Result(f'C06/{rule}/context-threading', UNDECIDED, 'pyvc+enum', time.time() - t0, (), {'message': f'outside subset: {ex}', 'functions': fn})]
        for pr in paths:
            npaths += 1
            if pr.outcome == 'raise' and not isinstance(pr.value, e.ParserError):
                bad.append({'ctx': repr(ctx), 'raises': repr(pr.value), 'matched': [str(x) for x in matched(pr)]}); continue
            if rule == 'ps_expr' and pr.outcome == 'return' and isinstance(pr.value, a.Speculation):
                # both operands of the node that is *returned* must be the ones parsed in the restricted context
                want = g.BlockContext((int(ctx) & 16) | 1)
                for side in ('left', 'right'):
                    node_ = getattr(pr.value, side)
                    org = node_._attrs.get('origin') if isinstance(node_, V.Sym) else None
                    if org is None or org[0] != 'ps_expr8' or org[1] != (want,):
                        bad.append({'ctx': repr(ctx), 'problem': f'the {side} operand of the Speculation node was not parsed by ps_expr8 in the ordinary-calls-only context',
                                    'operand_parsed_by': repr(org)})
            toks = []
            k = 0
            for ev in pr.trace:
                if ev[0] == 'match' and ev[2] is not None:
                    toks.append(ev[2])
                if ev[0] == 'rule':
                    name, args, kw = ev[1], ev[2], dict(ev[3])
                    cargs = [x for x in args if isinstance(x, g.BlockContext)]
                    if not cargs:
                        continue
                    nevents += 1
                    want = expected_ctx_after(rule, ctx, toks, k, name)
                    k += 1
                    if int(cargs[0]) != want:
                        bad.append({'ctx': repr(ctx), 'callee': name, 'passes': repr(cargs[0]), 'property_prescribes': repr(g.BlockContext(want)),
                                    'after_tokens': [str(x) for x in toks]})
        if len(bad) > 5: break
    det = {'formula': f'forall well-formed ctx (10), all oracle answers: each sub-rule of {rule} receives R(ctx) (identity; loop body |LOOP; try body '
                      'not-you+defeat+in_try; ?? operands ordinary-calls-only); only ParserError escapes', 'domain': 10, 'paths': npaths,
           'events': nevents, 'functions': fn}
    if bad:
        det.update(model=bad[:5], replay=replay_context(rule, bad[0]))
    return [Result(f'C06/{rule}/context-threading', FAILED if bad else DISCHARGED, 'pyvc+enum', time.time() - t0, (), det)]


# witness programs: construct placed in a context
PLACE = {
    'func': 'empty f() { %s }  empty @is_you() {}',
    'you': 'empty @is_you() { %s }',
    'defeat': 'empty !d() { %s }  empty @is_you() {}',
    'try_body': 'empty @is_you() { try { %s } undo {} }',
    'handler': 'empty @is_you() { try {} undo { %s } }',
    'preempt_defeat': 'empty !d() { preempt { %s } }  empty @is_you() {}',
    'loop_you': 'empty @is_you() { while (true) { %s } }',
    'spec_operand': 'int g() { return 1; } int @y() { return 1; } int !dd() { return 1; } empty @is_you() { int x = (%s) ?? 2; }',
}
CONSTRUCT = {
    'try': 'try {} undo {}', 'preempt': 'preempt {}', 'spec': 'int g() { return 1; } int q = g() ?? 1;', 'break': 'break;', 'continue': 'continue;',
    'call_you': '@y();', 'call_defeat': '!is_defeat();', 'call_plain': 'writeln();',
}


def placement_matrix(max_depth=2):
    """every construct placed in every context reachable by nesting wrappers up to max_depth inside each flavour of function: (program, accepted per README)"""
    import itertools
    # state: (may call you-functions, may call defeat-functions, try allowed, preempt allowed, ?? allowed, inside a loop)
    start = {'you': (True, False, True, False, True, False), 'defeat': (False, True, False, True, False, False), 'plain': (False, False, False, False, False, False)}
    head = {'you': 'empty @is_you() { %s }', 'defeat': 'empty !d() { %s } empty @is_you() {}', 'plain': 'empty f() { %s } empty @is_you() {}'}
    prelude = 'int g() { return 1; } int @y() { return 1; } int !dd() { return 1; } empty @yy() {} empty !ddd() {} bool c = true;\n'
    def wrap(st, w):
        you, dft, try_, pre, spec, loop = st
        if w == 'block': return '{ %s }', st
        if w == 'if': return 'if (c) { %s }', st
        if w == 'else': return 'if (c) { } else { %s }', st
        if w == 'while': return 'while (c) { %s }', (you, dft, try_, pre, spec, True)
        if w == 'for': return 'for (int i@ = 0; i@ < 3; i@ += 1) { %s }', (you, dft, try_, pre, spec, True)
        if w == 'try-body': return ('try { %s } undo { }', (False, True, False, True, False, loop)) if try_ else None
        if w == 'undo': return ('try { } undo { %s }', st) if try_ else None
        if w == 'stop': return ('try { } stop { %s }', st) if try_ else None
        if w == 'preempt': return ('preempt { %s }', st) if pre else None
    wrappers = ('block', 'if', 'else', 'while', 'for', 'try-body', 'undo', 'stop', 'preempt')
    constructs = {
        'call_plain': ('g();', lambda st: True), 'call_you': ('@yy();', lambda st: st[0]), 'call_defeat': ('!ddd();', lambda st: st[1]),
        'try': ('try { } undo { }', lambda st: st[2]), 'preempt': ('preempt { }', lambda st: st[3]), 'break': ('break;', lambda st: st[5]), 'continue': ('continue;', lambda st: st[5]),
        'spec': ('int q = g() ?? 1;', lambda st: st[4]), 'spec_statement': ('g() ?? 1;', lambda st: st[4]), 'spec_statement_literal': ('1 + 2 ?? g();', lambda st: st[4]),
        'spec_in_for_init': ('for (g() ?? 1; c; ) { }', lambda st: st[4]), 'spec_in_for_step': ('for (; c; g() ?? 1) { }', lambda st: st[4]),
        'spec_assigned': ('int q = 0; q = g() ?? 1;', lambda st: st[4]), 'spec_returned_value_position': ('write(1 + (g() ?? 2));', lambda st: st[4]), 'spec_you_operand': ('int q = @y() ?? 1;', lambda st: False), 'spec_defeat_operand': ('int q = 1 ?? !dd();', lambda st: False),
        'spec_nested_call_operand': ('int q = g() + @y() ?? 1;', lambda st: False), 'spec_in_call_arg': ('write(g() ?? 2);', lambda st: st[4]),
        'you_call_in_expr': ('int q = 1 + @y();', lambda st: st[0]), 'defeat_call_in_expr': ('int q = 1 + !dd();', lambda st: st[1]),
        'defeat_call_in_condition': ('if (!dd() > 0) { }', lambda st: st[1]), 'defeat_call_in_initialiser': ('int q = !dd();', lambda st: st[1]),
        'defeat_call_in_argument': ('write(!dd());', lambda st: st[1]), 'you_call_in_loop_condition': ('while (@y() > 5) { }', lambda st: st[0]),
    }
    out = []
    for flavour in start:
        for depth in range(0, max_depth + 1):
            for chain in itertools.product(wrappers, repeat=depth):
                st = start[flavour]; templ = '%s'; ok = True
                for d_, w in enumerate(chain):
                    r = wrap(st, w)
                    if r is None: ok = False; break
                    t, st = r
                    templ = templ % t.replace('@', str(d_))
                if not ok: continue
                for cname, (text, allowed) in constructs.items():
                    body = templ % text
                    out.append((f'{flavour}/' + '/'.join(chain) + f'/{cname}', prelude + head[flavour] % body, bool(allowed(st))))
    return out


def accepts_program(src):
    """parser + typechecker: a context violation is a ParserError; anything else the typechecker rejects is reported separately"""
    from hidc.parser import parse
    from hidc.lexer import SourceCode
    from hidc.ast import Environment
    from hidc.errors import ParserError, CompilerError
    try:
        tree = parse(SourceCode.from_string(src))
    except ParserError as e:
        return False, str(e)
    try:
        tree.evaluate(Environment.empty())
    except CompilerError as e:
        return None, f'{type(e).__name__}: {e}'
    return True, ''


def ob_placement(max_depth=2):
    t0 = time.time(); bad = []; n = 0
    for name, src, want in placement_matrix(max_depth):
        n += 1
        try:
            got, why = accepts_program(src)
        except Exception as e:
            got, why = 'crash', repr(e)
        if got is not want:
            bad.append({'placement': name, 'accepted': got, 'documented': want, 'diagnostic': why[:120], 'program': src.split('\n', 1)[1][:200]})
            if len(bad) > 8: break
    det = {'formula': 'every construct in every context reachable by nesting <= %d wrappers inside each function flavour: accepted iff README "Summary of what is allowed" allows it' % max_depth,
           'bound': f'nesting depth <= {max_depth}', 'count': n, 'functions': ['hidc.parser.grammar.ps_block', 'hidc.parser.grammar.ps_stmt', 'hidc.parser.grammar.ps_func_call', 'hidc.parser.grammar.ps_expr',
                                                                              'hidc.parser.grammar.BlockContext']}
    if bad: det.update(model=bad[:6], replay={'reproduced': True, 'how': 'real parser and typechecker on the placement program', 'observed': bad[0]})
    return [Result(f'C06/placement-matrix/depth{max_depth}', BOUNDED_FAILED if bad else BOUNDED_OK, 'bounded:enum', time.time() - t0, (), det)]


def accepts(src):
    from hidc.parser import parse
    from hidc.lexer import SourceCode
    from hidc.errors import ParserError
    try:
        parse(SourceCode.from_string(src)); return True
    except ParserError:
        return False


def replay_context(rule, bad):
    """depth-1 placement programs through the real parser: shows whether the violation is observable on whole programs"""
    obs = {}
    try:
        obs['try in try-body accepted'] = accepts('empty @is_you() { try { try {} undo {} } undo {} }')
        obs['you-call in try-body accepted'] = accepts('empty @y() {} empty @is_you() { try { @y(); } undo {} }')
        obs['defeat-call in ?? operand accepted'] = accepts('int !d() { return 1; } empty @is_you() { int x = !d() ?? 1; }')
        obs['you-call in ?? operand accepted'] = accepts('int @y() { return 1; } empty @is_you() { int x = @y() ?? 1; }')
        obs['break outside loop accepted'] = accepts('empty @is_you() { break; }')
        obs['break in loop rejected'] = not accepts('empty @is_you() { while (true) { break; } }')
        obs['preempt in you accepted'] = accepts('empty @is_you() { preempt {} }')
        obs['preempt in try body rejected'] = not accepts('empty @is_you() { try { preempt {} } undo {} }')
        obs['try in handler rejected'] = not accepts('empty @is_you() { try {} undo { try {} undo {} } }')
        obs['defeat call in try body rejected'] = not accepts('empty @is_you() { try { !is_defeat(); } undo {} }')
        obs['break in try body inside loop rejected'] = not accepts('empty @is_you() { while (true) { try { break; } undo {} } }')
        obs['call in global initialiser accepted'] = accepts('int f() { return 1; } int g = f(); empty @is_you() {}')
    except Exception as ex:
        return {'reproduced': None, 'how': f'witness programs crashed: {ex!r}'}
    wrong = [k for k, v in obs.items() if v]
    if not wrong:
        # the full placement matrix (every construct in every context up to nesting depth 2)
        try:
            for name, src, want in placement_matrix(2):
                got, why = accepts_program(src)
                if got is not want:
                    return {'reproduced': True, 'how': 'placement program through the real parser and typechecker',
                            'observed': {'placement': name, 'accepted': got, 'documented': want, 'diagnostic': why[:120], 'program': src.split('\n', 1)[1][:200]}}
        except Exception as ex:
            return {'reproduced': True, 'how': 'placement program through the real parser and typechecker', 'observed': {'placement': name, 'crash': repr(ex)}}
    return {'reproduced': bool(wrong), 'how': 'depth-1 placement programs through the real hidc.parser.parse', 'observed': wrong or 'no placement program shows it'}


def ob_guards():
    """accept/reject guards, both directions: try <=> you; preempt <=> defeat; ?? <=> you; break/continue <=> loop; call parsed <=> func;
    identifier flavour filter"""
    g, r, t, e, a = G()
    res = []
    B = g.BlockContext

    def guard(rule, clause, tok_pred, need, describe, fn_extra=()):
        t0 = time.time(); bad = []; n = 0
        for ctx in contexts():
            b = bits(ctx)
            allowed = need(b)
            # (=>) with arbitrary oracle answers: if the keyword was matched and the context forbids it, the path must raise
            # ParserError before requesting any further sub-rule
            for pr in explore_rule(rule, [ctx]):
                toks = matched(pr)
                idx = None
                seen = 0
                for ev in pr.trace:
                    if ev[0] == 'match' and ev[2] is not None and tok_pred(ev[2]):
                        idx = seen; break
                    seen += 1
                if idx is None:
                    continue
                n += 1
                after = pr.trace[idx + 1:]
                if not allowed:
                    if pr.outcome != 'raise' or not isinstance(pr.value, e.ParserError) or any(ev[0] in ('rule', 'match') for ev in after
                                                                                                  if not (ev[0] == 'match' and False)):
                        # tolerate the Teleport/current-node bookkeeping, nothing else
                        if pr.outcome != 'raise' or not isinstance(pr.value, e.ParserError) or any(ev[0] == 'rule' for ev in after):
                            bad.append({'ctx': repr(ctx), 'direction': 'must reject', 'outcome': pr.outcome, 'value': repr(pr.value)[:120]})
            # (<=) with all awaits succeeding: the rule must return a node
            for pr in explore_rule(rule, [ctx], force_success=True):
                toks = matched(pr)
                if not any(tok_pred(x) for x in toks):
                    continue
                n += 1
                if allowed and pr.outcome == 'raise':
                    bad.append({'ctx': repr(ctx), 'direction': 'must accept', 'raises': repr(pr.value)[:160]})
                if allowed and pr.outcome == 'return' and pr.value is None:
                    bad.append({'ctx': repr(ctx), 'direction': 'must accept', 'returns': None})
        det = {'formula': describe, 'domain': 10, 'paths': n, 'functions': [f'hidc.parser.grammar.{rule}'] + list(fn_extra)}
        if bad: det.update(model=bad[:5], replay=replay_context(rule, bad[0]))
        res.append(Result(f'C06/{rule}/{clause}', FAILED if bad else DISCHARGED, 'pyvc+enum', time.time() - t0, (), det))

    guard('ps_block', 'try-iff-you', lambda x: x == t.BlockToken.TRY, lambda b: b['you'], 'try accepted <=> you (never inside a try body)')
    guard('ps_block', 'preempt-iff-defeat', lambda x: x == t.BlockToken.PREEMPT, lambda b: b['defeat'], 'preempt accepted <=> defeat context')
    guard('ps_stmt', 'break-iff-loop', lambda x: x == t.StmtToken.BREAK, lambda b: b['loop'], 'break accepted <=> inside a loop')
    guard('ps_stmt', 'continue-iff-loop', lambda x: x == t.StmtToken.CONTINUE, lambda b: b['loop'], 'continue accepted <=> inside a loop')
    guard('ps_expr', 'speculation-iff-you', lambda x: x == t.OpToken.SPECULATION, lambda b: b['you'], '?? accepted <=> you')

    # calls: ps_func_call parses a call <=> func; identifier flavours = {plain|func} + {you|you} + {defeat|defeat}
    t0 = time.time(); bad = []; n = 0
    for ctx in contexts():
        b = bits(ctx)
        want_fl = set()
        if b['func']: want_fl.add(t.Flavor.NONE)
        if b['you']: want_fl.add(t.Flavor.YOU)
        if b['defeat']: want_fl.add(t.Flavor.DEFEAT)
        if set(ctx.flavors) != want_fl:
            bad.append({'ctx': repr(ctx), 'flavors': sorted(map(str, ctx.flavors)), 'property_prescribes': sorted(map(str, want_fl))})
        for pr in explore_rule('ps_func_call', [ctx]):
            n += 1
            calls = rule_calls(pr)
            if not b['func']:
                if pr.trace or pr.outcome != 'return' or pr.value is not None:
                    bad.append({'ctx': repr(ctx), 'problem': 'a call is parsed although calls are not allowed here', 'events': len(pr.trace)})
            else:
                idc = [c for c in calls if c[0] == 'ps_ident']
                if not idc or set(idc[0][1][0]) != want_fl:
                    bad.append({'ctx': repr(ctx), 'problem': 'identifier of a call is not filtered by the flavours the context allows',
                                'passed': repr(idc[0][1][0]) if idc else None})
    det = {'formula': 'a call is parsed <=> func; its identifier must have a flavour in {plain|func} u {you|you} u {defeat|defeat}', 'domain': 10, 'paths': n,
           'functions': ['hidc.parser.grammar.ps_func_call', 'hidc.parser.grammar.BlockContext.flavors']}
    if bad: det.update(model=bad[:5], replay=replay_context('ps_func_call', bad[0]))
    res.append(Result('C06/ps_func_call/call-iff-func-and-flavour-filter', FAILED if bad else DISCHARGED, 'pyvc+enum', time.time() - t0, (), det))

    # ps_ident: passes <=> flavour allowed
    t0 = time.time(); bad = []; n = 0
    import itertools
    fl = list(t.Flavor)
    for k in range(len(fl) + 1):
        for allowed in itertools.combinations(fl, k):
            for pr in explore_rule('ps_ident', [frozenset(allowed)]):
                n += 1
                ms = matched(pr)
                if not ms: continue
                tok = ms[0]
                if tok.flavor in allowed:
                    if pr.outcome != 'return' or pr.value is None or pr.value.token is not tok:
                        bad.append({'allowed': list(map(str, allowed)), 'token': str(tok), 'outcome': pr.outcome})
                elif pr.outcome != 'raise' or not isinstance(pr.value, e.ParserError):
                    bad.append({'allowed': list(map(str, allowed)), 'token': str(tok), 'outcome': pr.outcome, 'value': repr(pr.value)[:100]})
    det = {'formula': 'ps_ident(allowed) returns the identifier <=> its flavour is in `allowed`, else ParserError', 'domain': 8 * 3, 'paths': n,
           'functions': ['hidc.parser.grammar.ps_ident']}
    if bad: det.update(model=bad[:5], replay=replay_context('ps_ident', bad[0]))
    res.append(Result('C06/ps_ident/flavour-filter', FAILED if bad else DISCHARGED, 'pyvc+enum', time.time() - t0, (), det))

    # ps_func: body context by flavour; ps_program: globals with NONE
    t0 = time.time(); bad = []; n = 0
    for pr in explore_rule('ps_func', []):
        n += 1
        ms = [x for x in matched(pr) if isinstance(x, t.Ident)]
        for c in rule_calls(pr):
            if c[0] == 'ps_code_block':
                want = {t.Flavor.YOU: B.YOU, t.Flavor.DEFEAT: B.DEFEAT, t.Flavor.NONE: B.FUNC}[ms[0].flavor]
                if c[1][0] != want:
                    bad.append({'function_flavour': str(ms[0].flavor), 'body_context': repr(c[1][0]), 'property_prescribes': repr(want)})
    for pr in explore_rule('ps_program', []):
        n += 1
        for c in rule_calls(pr):
            if c[0] == 'ps_vdecl' and c[1][0] != B.NONE:
                bad.append({'global_declaration_context': repr(c[1][0]), 'property_prescribes': 'NONE (no calls in global initialisers)'})
    det = {'formula': 'function bodies are parsed in YOU / DEFEAT / FUNC by flavour; global declarations in NONE', 'paths': n,
           'functions': ['hidc.parser.grammar.ps_func', 'hidc.parser.grammar.ps_program']}
    if bad: det.update(model=bad[:5], replay=replay_context('ps_func', bad[0]))
    res.append(Result('C06/ps_func+ps_program/entry-contexts', FAILED if bad else DISCHARGED, 'pyvc', time.time() - t0, (), det))
    return res


def ob_ctx_not_rebound():
    """frame condition used by the loop cut: no rule assigns to its `ctx` parameter"""
    g = G()[0]
    t0 = time.time(); bad = []
    for name in CTX_RULES:
        f, node = V.get_function(name, g)
        for n in pyast.walk(node):
            tg = []
            if isinstance(n, pyast.Assign): tg = n.targets
            elif isinstance(n, (pyast.AugAssign, pyast.AnnAssign, pyast.NamedExpr)): tg = [n.target]
            elif isinstance(n, (pyast.For, pyast.comprehension)): tg = [n.target]
            for x in tg:
                for y in pyast.walk(x):
                    if isinstance(y, pyast.Name) and y.id == 'ctx':
                        bad.append({'rule': name, 'line': n.lineno})
    det = {'formula': 'no grammar rule rebinds its ctx parameter (so a loop body behaves the same in every iteration)', 'functions': [f'hidc.parser.grammar.{r}' for r in CTX_RULES]}
    if bad: det.update(model=bad, replay={'reproduced': None})
    return [Result('C06/grammar/ctx-not-rebound', FAILED if bad else DISCHARGED, 'pyvc-syntactic', time.time() - t0, (), det)]


# ---- C11 -------------------------------------------------------------------------------------------------------------------
def documented_ladder():
    """README 'Operators -- In order of precedence' (tightest first)"""
    g, r, t, e, a = G()
    O = t.OpToken
    return [
        ('ps_expr2', 'prefix', {O.ADD: a.Pos, O.SUB: a.Neg, O.NOT: a.Not}),
        ('ps_expr3', 'is', None),
        ('ps_expr4', 'binary', {O.MUL: a.Mul, O.DIV: a.Div, O.MOD: a.Mod}),
        ('ps_expr5', 'binary', {O.ADD: a.Add, O.SUB: a.Sub}),
        ('ps_expr6', 'binary', {O.EQ: a.Eq, O.NE: a.Ne, O.LT: a.Lt, O.LE: a.Le, O.GT: a.Gt, O.GE: a.Ge}),
        ('ps_expr7', 'binary', {O.AND: a.And}),
        ('ps_expr8', 'binary', {O.OR: a.Or}),
        ('ps_expr', 'speculation', {O.SPECULATION: a.Speculation}),
    ]


def ob_ladder():
    g, r, t, e, a = G()
    res = []
    B = g.BlockContext
    ctx = B.YOU | B.LOOP
    lad = documented_ladder()
    prev = {'ps_expr2': 'ps_expr1', 'ps_expr3': 'ps_expr2', 'ps_expr4': 'ps_expr3', 'ps_expr5': 'ps_expr4', 'ps_expr6': 'ps_expr5',
            'ps_expr7': 'ps_expr6', 'ps_expr8': 'ps_expr7', 'ps_expr': 'ps_expr8'}
    for rule, kind, table in lad:
        t0 = time.time(); bad = []; n = 0
        if kind != 'binary':
            continue
        for pr in explore_rule(rule, [ctx]):
            n += 1
            calls = rule_calls(pr)
            # operand rule is the next tighter level with the same ctx
            for c in calls:
                if c[0] != prev[rule] or c[1][0] != ctx:
                    bad.append({'rule': rule, 'operand_rule': c[0], 'property_prescribes': prev[rule]})
            for ev in pr.trace:
                if ev[0] == 'match' and ev[1][0] == 'oneof' and set(ev[1][1]) != set(table):
                    bad.append({'rule': rule, 'operators': [str(x) for x in ev[1][1]], 'documented': [str(x) for x in table]})
            if pr.outcome == 'return' and pr.value is not None:
                ops = [x for x in matched(pr) if isinstance(x, t.OpToken)]
                # left-associative fold: ((e0 op1 e1) op2 e2)
                v = pr.value
                for op in reversed(ops):
                    if op not in table or type(v) is not table[op]:
                        bad.append({'rule': rule, 'tree': repr(v)[:80], 'operator': str(op),
                                    'documented_class': table[op].__name__ if op in table else 'operator not at this level'}); break
                    if isinstance(v.right, (a.Binary,)) and type(v.right) in table.values():
                        bad.append({'rule': rule, 'problem': 'groups to the right', 'tree': repr(v)[:120]}); break
                    v = v.left
                else:
                    if not isinstance(v, V.Sym):
                        bad.append({'rule': rule, 'problem': 'leftmost operand is not the first operand parsed'})
        det = {'formula': f'{rule}: operands are {prev[rule]}(ctx); operator set = documented level; equal precedence groups to the left', 'paths': n,
               'functions': [f'hidc.parser.grammar.{rule}', 'hidc.parser.grammar.bin_op']}
        if bad: det.update(model=bad[:4], replay=replay_precedence())
        res.append(Result(f'C11/{rule}/level-contract', FAILED if bad else DISCHARGED, 'pyvc', time.time() - t0, (), det))

    # bin_op: loop-body contract with an arbitrary accumulated expression (left fold for every number of operators)
    t0 = time.time(); bad = []
    f, node = V.get_function('bin_op', g)
    loop = [s for s in node.body if isinstance(s, pyast.While)]
    if len(loop) != 1:
        res.append(Result('C11/bin_op/left-fold-invariant', UNDECIDED, 'pyvc', time.time() - t0, (), {'message': 'bin_op no longer has exactly one while loop'}))
    else:
        O = t.OpToken
        table = {O.ADD: a.Add, O.SUB: a.Sub}
        acc = V.Sym('acc')

        def run(it):
            env = {'expr_rule': g.ps_expr4(ctx), 'operators': table, 'expr': acc}
            it.loop_bound = 1
            try:
                it.stmt(loop[0], env, f.__globals__)
            except V.LoopCut:
                pass
            return env
        n = 0
        for pr in V.explore(run, interp_factory=lambda: V.Interp(on_await=Oracle(), loop_bound=1)):
            n += 1
            if pr.outcome not in ('return',):
                continue
            env = pr.value
            ops = [x for x in matched(pr) if isinstance(x, t.OpToken)]
            v = env['expr']
            if not ops:
                if v is not acc: bad.append({'problem': 'accumulator changed without an operator'})
                continue
            # exactly one iteration was executed (bound 1): expr' = Op_1(acc, right) with `right` the operand parsed after the operator
            if v is acc:
                continue        # the operand after the operator failed to parse: path raised/ended before the assignment
            if type(v) is not table[ops[0]]:
                bad.append({'problem': 'node class is not the one the operator table gives', 'tree': repr(v)[:100]}); continue
            if v.left is not acc:
                bad.append({'problem': 'the accumulated expression is not the LEFT operand (fold is not to the left)', 'tree': repr(v)[:120]})
            if not (isinstance(v.right, V.Sym) and v.right._name == 'node:ps_expr4'):
                bad.append({'problem': 'the right operand is not the operand parsed after the operator', 'tree': repr(v)[:120]})
        det = {'formula': 'forall accumulated expr: one iteration of bin_op yields Op(expr, right) -- left fold, for any number of operators', 'paths': n,
               'functions': ['hidc.parser.grammar.bin_op']}
        if bad: det.update(model=bad[:4], replay=replay_precedence())
        res.append(Result('C11/bin_op/left-fold-invariant', FAILED if bad else DISCHARGED, 'pyvc', time.time() - t0, (), det))

    # prefix operators, `is`, postfix, parentheses, speculation
    t0 = time.time(); bad = []; n = 0
    table2 = lad[0][2]
    for pr in explore_rule('ps_expr2', [ctx]):
        n += 1
        calls = rule_calls(pr)
        ops = [x for x in matched(pr) if isinstance(x, t.OpToken)]
        for ev in pr.trace:
            if ev[0] == 'match' and ev[1][0] == 'oneof' and set(ev[1][1]) != set(table2):
                bad.append({'rule': 'ps_expr2', 'operators': [str(x) for x in ev[1][1]], 'documented': [str(x) for x in table2]})
        if ops:
            if [c[0] for c in calls] != ['ps_expr2'] or calls[0][1][0] != ctx:
                bad.append({'rule': 'ps_expr2', 'problem': 'operand of a prefix operator is not ps_expr2(ctx) (right recursion)', 'calls': [c[0] for c in calls]})
            if pr.outcome == 'return' and pr.value is not None and type(pr.value) is not table2[ops[0]]:
                bad.append({'rule': 'ps_expr2', 'problem': 'wrong node class', 'got': type(pr.value).__name__})
        elif [c[0] for c in calls] != ['ps_expr1']:
            bad.append({'rule': 'ps_expr2', 'problem': 'without prefix operator the rule must be ps_expr1', 'calls': [c[0] for c in calls]})
    for pr in explore_rule('ps_expr3', [ctx]):
        n += 1
        calls = [c for c in rule_calls(pr)]
        if calls and (calls[0][0] != 'ps_expr2' or calls[0][1][0] != ctx):
            bad.append({'rule': 'ps_expr3', 'problem': 'operand of `is` is not ps_expr2(ctx)'})
        if len([c for c in calls if c[0].startswith('ps_expr')]) > 1:
            bad.append({'rule': 'ps_expr3', 'problem': 'more than one operand: `is` must not chain'})
        if t.OpToken.IS in matched(pr) and pr.outcome == 'return' and pr.value is not None and type(pr.value) is not a.Is:
            bad.append({'rule': 'ps_expr3', 'problem': 'is does not build an Is node'})
    for pr in explore_rule('ps_expr1', [ctx]):
        n += 1
        calls = rule_calls(pr)
        if calls and calls[0][0] != 'ps_expr0':
            bad.append({'rule': 'ps_expr1', 'problem': 'postfix forms must bind to a primary (ps_expr0)', 'got': calls[0][0]})
        for c in calls[1:]:
            if c[0] != 'ps_expr' or c[1][0] != ctx:
                bad.append({'rule': 'ps_expr1', 'problem': 'index expression is not a full ps_expr(ctx)', 'got': c[0]})
        if pr.outcome == 'return' and pr.value is not None and not isinstance(pr.value, V.Sym):
            v = pr.value
            while isinstance(v, (a.ArrayLookup, a.LengthLookup)): v = v.source
            if not isinstance(v, V.Sym):
                bad.append({'rule': 'ps_expr1', 'problem': 'postfix chain is not rooted at the primary'})
    for pr in explore_rule('ps_expr0', [ctx]):
        n += 1
        ms = matched(pr)
        if ms and ms[0] == t.BracToken.LPAREN:
            calls = rule_calls(pr)
            if calls and (calls[0][0] != 'ps_expr' or calls[0][1][0] != ctx):
                bad.append({'rule': 'ps_expr0', 'problem': 'parentheses must re-enter the full expression rule', 'got': calls[0][0]})
    for pr in explore_rule('ps_expr', [ctx]):
        n += 1
        calls = rule_calls(pr)
        if any(c[0] != 'ps_expr8' for c in calls):
            bad.append({'rule': 'ps_expr', 'problem': '?? must be the loosest level: operands are ps_expr8', 'calls': [c[0] for c in calls]})
        if t.OpToken.SPECULATION in matched(pr):
            if len(calls) > 3:
                bad.append({'rule': 'ps_expr', 'problem': '?? must not chain'})
            if pr.outcome == 'return' and pr.value is not None and type(pr.value) is not a.Speculation:
                bad.append({'rule': 'ps_expr', 'problem': 'no Speculation node built'})
    det = {'formula': 'prefix operators right-recursive over ps_expr2; one `is` over ps_expr2; postfix forms bind to the primary; parentheses re-enter ps_expr; '
                      '?? loosest, operands ps_expr8, non-associative', 'paths': n,
           'functions': [f'hidc.parser.grammar.ps_expr{i}' for i in (0, 1, 2, 3)] + ['hidc.parser.grammar.ps_expr']}
    if bad: det.update(model=bad[:4], replay=replay_precedence())
    res.append(Result('C11/unary-is-postfix-paren-speculation/level-contracts', FAILED if bad else DISCHARGED, 'pyvc', time.time() - t0, (), det))
    return res


def reference_tree(tokens):
    """independent precedence-climbing parser over operator tokens and atoms (documented table), returns nested tuples"""
    LEVEL = {'*': 3, '/': 3, '%': 3, '+': 4, '-': 4, '==': 5, '!=': 5, '<': 5, '<=': 5, '>': 5, '>=': 5, 'and': 6, 'or': 7}
    pos = 0

    def peek(): return tokens[pos] if pos < len(tokens) else None

    def unary():
        nonlocal pos
        tk = peek()
        if tk in ('+', '-', 'not'):
            pos += 1; return ('u' + tk, unary())
        pos += 1; return tk

    def level(n):
        nonlocal pos
        if n == 2: return unary()
        left = level(n - 1)
        while peek() is not None and LEVEL.get(peek()) == n:
            op = peek(); pos += 1
            right = level(n - 1)
            left = (op, left, right)
        return left
    return level(7)


def tree_of(e):
    from hidc import ast as a
    if isinstance(e, a.Binary): return (str(e.token), tree_of(e.left), tree_of(e.right))
    if isinstance(e, a.Unary): return ('u' + str(e.token), tree_of(e.arg))
    if isinstance(e, a.VariableLookup): return e.var.name
    if isinstance(e, a.IntValue): return str(e.data)
    raise ValueError(e)


def replay_precedence():
    """all operator pairs through the real parser against the independent reference"""
    from hidc.parser import parse
    from hidc.parser.grammar import ps_expr, BlockContext
    from hidc.lexer import SourceCode
    bin_ops = ['*', '/', '%', '+', '-', '==', '!=', '<', '<=', '>', '>=', 'and', 'or']
    wrong = []
    for o1 in bin_ops:
        for o2 in bin_ops:
            toks = ['a', o1, 'b', o2, 'c']
            src = ' '.join(toks)
            try:
                got = tree_of(parse(SourceCode.from_string(src), ps_expr(BlockContext.FUNC)))
            except Exception as ex:
                got = repr(ex)
            want = reference_tree(toks)
            if got != want:
                wrong.append({'source': src, 'parsed': got, 'documented': want})
    return {'reproduced': bool(wrong), 'how': 'all operator pairs `a o1 b o2 c` through the real hidc.parser.parse vs an independent precedence-climbing parser',
            'observed': wrong[:5] or 'all 169 pairs agree'}


def ob_roundtrip_bounded():
    """BOUNDED-IN: print/parse round trip -- there is no printer in the repository; stand-in: all operator pairs and triples (with unary
    prefixes) through the real parser against an independent precedence-climbing parser"""
    from hidc.parser import parse
    from hidc.parser.grammar import ps_expr, BlockContext
    from hidc.lexer import SourceCode
    t0 = time.time()
    bin_ops = ['*', '/', '%', '+', '-', '==', '!=', '<', '<=', '>', '>=', 'and', 'or']
    un = ['', '-', 'not ', '+']
    wrong = []; n = 0
    import itertools
    for ops in itertools.chain(itertools.product(bin_ops, repeat=2), itertools.product(bin_ops, repeat=3)):
        for u in (un if len(ops) == 2 else ['', '-']):
            names = ['a', 'b', 'c', 'd'][:len(ops) + 1]
            toks = []
            for i, nm in enumerate(names):
                if i == 1 and u:
                    toks.append(u.strip())
                toks.append(nm)
                if i < len(ops): toks.append(ops[i])
            src = ' '.join(toks)
            n += 1
            try:
                got = tree_of(parse(SourceCode.from_string(src), ps_expr(BlockContext.FUNC)))
            except Exception as ex:
                got = repr(ex)
            want = reference_tree(toks)
            if got != want:
                wrong.append({'source': src, 'parsed': got, 'documented': want})
    # chains of unary prefixes (up to two) on every operand of `a o b`, and on a lone operand
    chains = [()] + [(u1,) for u1 in ('-', 'not', '+')] + [(u1, u2) for u1 in ('-', 'not', '+') for u2 in ('-', 'not', '+')]
    for o in bin_ops + [None]:
        for ca in chains:
            for cb in (chains if o else [()]):
                toks = list(ca) + ['a'] + ([o] + list(cb) + ['b'] if o else [])
                src = ' '.join(toks); n += 1
                try:
                    got = tree_of(parse(SourceCode.from_string(src), ps_expr(BlockContext.FUNC)))
                except Exception as ex:
                    got = repr(ex)
                want = reference_tree(toks)
                if got != want:
                    wrong.append({'source': src, 'parsed': got, 'documented': want})
    from hidv.oblig import BOUNDED_OK, BOUNDED_FAILED
    det = {'bound': 'all binary operator pairs (x4 unary prefixes) and triples (x2), unary chains up to two on both operands of every operator: exhaustive at that size', 'formula': 'parse(tokens) == reference tree',
           'count': n, 'functions': ['hidc.parser.parse', 'hidc.parser.grammar.ps_expr']}
    if wrong: det.update(model=wrong[:5], replay={'reproduced': True, 'how': 'real parser output', 'observed': wrong[0]})
    return [Result('C11/roundtrip/pairs-and-triples', BOUNDED_FAILED if wrong else BOUNDED_OK, 'bounded:enum', time.time() - t0, (), det)]


def tasks(tier):
    out = []
    for rule in CTX_RULES:
        out.append(task(MOD, 'ob_context_threading', ('C06', 'C10', 'C03') if rule in ('ps_block', 'ps_expr') else ('C06', 'C03'), label=f'py/grammar/ctx/{rule}', rule=rule, cost=4))          # C03: a defeat call is only accepted where defeat is caught
    out.append(task(MOD, 'ob_guards', ('C06', 'C03'), label='py/grammar/guards', cost=8))
    out.append(task(MOD, 'ob_ctx_not_rebound', ('C06', 'C03'), label='py/grammar/ctx-not-rebound'))
    out.append(task(MOD, 'ob_placement', ('C06', 'C10', 'C03'), label='py/grammar/placement', max_depth=2 if tier == 'quick' else 3, cost=5 if tier == 'quick' else 60))
    out.append(task(MOD, 'ob_ladder', ('C11',), label='py/grammar/ladder', cost=6))
    out.append(task(MOD, 'ob_roundtrip_bounded', ('C11',), label='py/grammar/roundtrip-bounded', cost=3))
    return out
