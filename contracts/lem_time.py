"""Lemmas for the time-travel constructs (C02; also C03, C08): try/undo, try/stop, preempt, `??`, !is_defeat, !truth_is_defeat,
return protection of preemptive defeat functions.

Expected leaf sets are written out per construct (DESIGN.md section 8, C02 and Appendix A.4), transcribed from the README:
  undo   "is run instead of the try block if running the try block would have led to defeat"
  stop   "is run if defeat is reached in the try block"; afterwards execution continues with frame and array stack as at try entry
         and defeat behaving normally again
  preempt "is run if not running the preempt block would lead to defeat in its parent try block"
  a ?? b  "the right-hand side will always be evaluated, and if both sides are evaluated, the right side will be evaluated first";
          a is evaluated only if its value differs from b
You-context lemmas take the continuation contract of C03 as precondition (what follows a try never halts): `halting_cont=False`.
"""
from __future__ import annotations
import time
import z3
from hidv.oblig import task
from hidv.harness.lemma import Lemma
from hidv.harness.vcg import ABlock, SPAN
from hidv import smt
from hidc import ast
from hidc.ast import DataType, ExitMode
from hidc.codegen import asm, stdlib

MOD = 'contracts.lem_time'
I, B, Y = DataType.INT, DataType.BOOL, DataType.BYTE
ALL = ExitMode.NONE | ExitMode.BREAK | ExitMode.LOOP | ExitMode.DEFEAT | ExitMode.RETURN
GEN = ['hidc.codegen.generator.CodeGen.gen_block', 'hidc.codegen.generator.CodeGen.goto', 'hidc.codegen.generator.CodeGen.add_label',
       'hidc.codegen.generator.CodeGen.reserve_word', 'hidc.codegen.generator.CodeGen.pop', 'hidc.codegen.asm.Accessor.to', 'hidc.codegen.asm.Indirect.set']


def child_events(l):
    return [(e[1].node.name, e[2].abnormal) for e in l.st.trace if e[0] == 'child']


def P(L, l, f):
    return smt.prove(L.ctx.all_pre() + list(l.cond), f).verdict == smt.PROVED


def inv_regs(L, l, defeat=None, ap=None):
    E = L.entry.regs; r = l.st.regs
    probs = []
    if not P(L, l, r['fp'] == E['fp']): probs.append('fp not as at try entry')
    if not P(L, l, r['ap'] == (E['ap'] if ap is None else ap)): probs.append('ap not as at try entry')
    if defeat is not None and not P(L, l, r['defeat'] == defeat): probs.append('defeat does not behave normally again (defeat != halt after the try)')
    return probs


def no_glue_effects(l, allowed_children):
    """no event other than the named children, no store outside scratch is checked by the caller via stores list"""
    bad = [e for e in l.st.trace if e[0] != 'child']
    return [] if not bad else [f'glue emits {bad[0][0]}']


# ---- try / undo ---------------------------------------------------------------------------------------------------------------
def run_try_undo(w, unchecked):
    L = Lemma(f'time/try-undo/w{w}/{"unchecked" if unchecked else "checked"}', w, unchecked)
    L.functions.update(GEN)
    res = L.results
    try:
        cg = L.cg; c = L.ctx
        c.halting_cont = False                     # C03 continuation contract of you-context
        L.enclosing_loop(); L.function_context()
        body = ABlock('B', ALL, may_continue=True)
        handler = ABlock('H', ALL & ~ExitMode.DEFEAT, may_continue=True)
        blk = ast.TryBlock(SPAN.start, body, ast.UndoBlock(SPAN.start, handler))
        L.blocks_may_defeat_silently = ('B',)
        out = L.guarded_emit(lambda: cg.gen_block(blk))
        if out is None: return res
        instrs, lines, _ = out; L.lines = lines
        eng, leaves = L.run_engine(lines); L.last_leaves = leaves
        t0 = time.time(); problems = []
        E = L.entry
        seen = set()
        for l in leaves:
            ev = child_events(l)
            problems += no_glue_effects(l, ('B', 'H'))
            if l.st.stores: problems.append('try/undo glue stores to memory')
            names = [n for n, _ in ev]
            if names == ['B']:
                seen.add(('B', ev[0][1]))
                if ev[0][1] == 'defeat': problems.append('a try body that reaches defeat is committed (undo not taken)')
            elif names == ['H']:
                seen.add(('H', ev[0][1]))
                # justified only by a rewound run of B, from the entry state, that reached defeat
                just = [r for _, r in l.rewinds if r.kind == 'bot' and child_events(r) == [('B', 'defeat')]]
                if not just: problems.append('undo block runs although no run of the try body reached defeat')
                hev = [e for e in l.st.trace if e[0] == 'child'][0][2]
                if not (P(L, l, hev.pre.regs['fp'] == E.regs['fp']) and P(L, l, hev.pre.regs['ap'] == E.regs['ap']) and not hev.pre.stores
                        and P(L, l, hev.pre.regs['defeat'] == E.regs['defeat'])):
                    problems.append('undo block does not start from the state at try entry (something of the try body is observable)')
            else:
                problems.append(f'neither exactly the try body nor exactly the undo block ran: {ev}')
            if l.kind == 'exit' and l.tgt == '<end>':
                problems += inv_regs(L, l, defeat=E.regs['defeat'])
            if l.kind == 'bot' and not just_child_defeat(l):
                problems.append('try/undo can halt on the committed timeline')
        for want in (('B', None), ('H', None), ('B', 'return'), ('B', 'break'), ('H', 'return')):
            if want not in seen: problems.append(f'vacuity: expected leaf {want} not reachable')
        L.add('LEAVES', 'failed' if problems else 'discharged', t0, ('C02', 'C03', 'C08') + (('C15',) if unchecked else ()),
              {'formula': 'try B undo H = exactly one of B / H; H iff a run of B from the entry state reaches defeat, and then nothing of B is observable; '
                          'fp, ap, defeat at the end as at try entry', 'message': '; '.join(sorted(set(problems))), 'leaves': len(leaves)})
        if not unchecked: L.prove_all('SAFE', eng.safety, ('C04',))
        from contracts.lem_block import modes_enum
        L.functions.update(['hidc.ast.blocks.TryBlock.exit_modes', 'hidc.ast.blocks.UndoBlock.exit_modes'])
        modes_enum(L, lambda mb, mh: ast.TryBlock(SPAN.start, ABlock('B', mb), ast.UndoBlock(SPAN.start, ABlock('H', mh))), ('B', 'H'), silent_defeat=('B',))
    finally:
        L.close()
    return res


def just_child_defeat(l):
    tr = l.st.trace
    return bool(tr) and tr[-1][0] == 'child' and tr[-1][2].abnormal == 'defeat'


# ---- try / stop ---------------------------------------------------------------------------------------------------------------
def run_try_stop(w, unchecked):
    L = Lemma(f'time/try-stop/w{w}/{"unchecked" if unchecked else "checked"}', w, unchecked)
    L.functions.update(GEN)
    res = L.results
    try:
        cg = L.cg; c = L.ctx
        c.halting_cont = False
        L.enclosing_loop(); L.function_context()
        body = ABlock('B', ALL, may_continue=True)
        handler = ABlock('H', ALL & ~ExitMode.DEFEAT, may_continue=True)
        blk = ast.TryBlock(SPAN.start, body, ast.StopBlock(SPAN.start, handler))
        L.children_run_with_changed_defeat = True      # this construct sets the defeat word on purpose; checked explicitly below
        L.blocks_may_defeat_silently = ('B',)
        out = L.guarded_emit(lambda: cg.gen_block(blk))
        if out is None: return res
        instrs, lines, _ = out; L.lines = lines
        t0 = time.time()
        book = []
        if not cg.needs_variable_defeat: book.append('needs_variable_defeat not set by a try/stop block (try_fp/defeat words would not be emitted)')
        if cg.effective_defeat != stdlib.halt: book.append('effective_defeat not restored after the try')
        L.add('BOOK', 'failed' if book else 'discharged', t0, ('C02', 'C10'), {'message': '; '.join(book), 'formula': 'compile-time defeat bookkeeping of try/stop',
              'replay': {'reproduced': True, 'how': 'observed on the real CodeGen object'}}, backend='harness')
        eng, leaves = L.run_engine(lines); L.last_leaves = leaves
        t0 = time.time(); problems = []
        E = L.entry; halt = c.label('halt')
        seen = set()
        for l in leaves:
            ev = child_events(l)
            names = [n for n, _ in ev]
            # the committed timeline contains either one run of B, or one run of B that ends in defeat followed by H
            if names == ['B'] and ev[0][1] != 'defeat':
                seen.add(('B', ev[0][1]))
            elif names == ['B', 'H'] and ev[0][1] == 'defeat':
                seen.add(('BH', ev[1][1]))
                hev = [e for e in l.st.trace if e[0] == 'child'][1][2]
                if not P(L, l, hev.pre.regs['fp'] == E.regs['fp']): problems.append('stop block does not run with the frame pointer of the try\'s activation')
                if not P(L, l, hev.pre.regs['ap'] == E.regs['ap']): problems.append('stop block does not run with the array stack as at try entry')
                if not P(L, l, hev.pre.regs['defeat'] == halt): problems.append('inside the stop block defeat is still caught by this handler (defeat != halt)')
            else:
                problems.append(f'unexpected sequence of blocks on a committed timeline: {ev}')
            if [e for e in l.st.trace if e[0] not in ('child',)]: problems.append('glue emits events')
            if l.kind == 'exit' and l.tgt == '<end>':
                problems += inv_regs(L, l, defeat=halt)
            if l.kind == 'bot':
                problems.append('try/stop can halt on the committed timeline')
        for want in (('B', None), ('BH', None), ('B', 'return'), ('BH', 'return')):
            if want not in seen: problems.append(f'vacuity: expected leaf {want} not reachable')
        det = {'formula': 'try B stop H: B runs; H runs exactly when B reaches defeat, with fp/ap as at try entry; afterwards fp, ap as at entry and defeat = halt '
                          '(on every way of getting there: real run, virtual run completing, through the handler)',
               'message': '; '.join(sorted(set(problems))), 'leaves': len(leaves)}
        if problems: det['replay'] = replay_stop_then_undo(w, unchecked)
        L.add('LEAVES', 'failed' if problems else 'discharged', t0, ('C02', 'C03', 'C08') + (('C15',) if unchecked else ()), det)
        if not unchecked: L.prove_all('SAFE', eng.safety, ('C04',))
        from contracts.lem_block import modes_enum
        L.functions.update(['hidc.ast.blocks.TryBlock.exit_modes', 'hidc.ast.blocks.StopBlock.exit_modes'])
        modes_enum(L, lambda mb, mh: ast.TryBlock(SPAN.start, ABlock('B', mb), ast.StopBlock(SPAN.start, ABlock('H', mh))), ('B', 'H'), silent_defeat=('B',))
    finally:
        L.close()
    return res


def replay_stop_then_undo(w, unchecked):
    """history of two try blocks in one run: after a stop-try, an undo-try that calls a defeat function must still work"""
    from hidv.sphinx import svm
    src = ('empty !d(int x) { !truth_is_defeat(x == 1); } '
           'empty @is_you() { try { write("try1 "); !d(1); write("unreachable "); } stop { writeln("stop1"); } '
           'try { write("try2 "); !d(1); writeln("not-undone"); } undo { writeln("undo2"); } writeln("end"); }')
    try:
        res, vm = svm.run_hid(src, word_size=w, unchecked=unchecked, max_steps=200000)
    except Exception as e:
        return {'reproduced': None, 'how': f'witness failed to compile/run: {e!r}'}
    out = vm.out.decode('latin1')
    want = 'try1 stop1\nundo2\nend\n'
    return {'reproduced': not (res == 'win' and out == want), 'how': 'hidc-compiled two-try program on hidv.sphinx.svm', 'program': src,
            'observed': {'end': res, 'output': out[:200]}, 'expected': want}


# ---- preempt --------------------------------------------------------------------------------------------------------------------
def run_preempt(virtual, w, unchecked):
    ctxname = {False: 'try-undo-body', True: 'variable-defeat', 'try': 'try-stop-body'}[virtual]
    L = Lemma(f'time/preempt/{ctxname}/w{w}/{"unchecked" if unchecked else "checked"}', w, unchecked,
              may_defeat=True, virtual_defeat=bool(virtual))
    L.functions.update(GEN)
    res = L.results
    try:
        cg = L.cg; c = L.ctx
        c.halting_cont = True
        L.enclosing_loop(); L.function_context()
        if virtual: L.func_defeat_value = L.entry.regs['defeat']
        if virtual == 'try':
            cg.func_defeat = stdlib.halt; cg.needs_variable_defeat = True
            L.func_defeat_value = c.label('halt')
        body = ABlock('P', ALL, may_continue=True, preemptive=False)
        blk = ast.PreemptBlock(SPAN.start, body)
        out = L.guarded_emit(lambda: cg.gen_block(blk))
        if out is None: return res
        instrs, lines, _ = out; L.lines = lines
        eng, leaves = L.run_engine(lines); L.last_leaves = leaves
        t0 = time.time(); problems = []
        E = L.entry; halt = c.label('halt')
        ran = skipped = False
        for l in leaves:
            ev = child_events(l)
            if [e for e in l.st.trace if e[0] != 'child']: problems.append('glue emits events')
            if l.st.stores: problems.append('preempt glue stores to memory')
            if not ev:
                # skipped: only allowed when skipping does not lead to defeat (this leaf carries not-H) and defeat is not virtual
                skipped = True
                if l.kind == 'exit':
                    if l.hvar is None: problems.append('skip leaf without a continuation assumption')
                    if virtual and not P(L, l, E.regs['defeat'] == halt): problems.append('preempt block skipped although defeat is virtual')
                    problems += inv_regs(L, l)
                elif l.kind == 'bot':
                    pass        # skip, continuation halts, and the preempt alternative halts as well: defeat either way
                else:
                    problems.append(f'unexpected leaf without running the block: {l.kind} {l.tgt}')
            elif [n for n, _ in ev] == ['P']:
                ran = True
                forced = l.tag is not None or (virtual and P(L, l, E.regs['defeat'] != halt))
                if not forced: problems.append('preempt block runs although skipping it would not lead to defeat and defeat is real')
                pev = [e for e in l.st.trace if e[0] == 'child'][0][2]
                if not (P(L, l, pev.pre.regs['fp'] == E.regs['fp']) and P(L, l, pev.pre.regs['ap'] == E.regs['ap']) and P(L, l, pev.pre.regs['defeat'] == E.regs['defeat'])):
                    problems.append('preempt block does not start from the state at the preempt statement')
                if l.kind == 'exit' and l.tgt == '<end>': problems += inv_regs(L, l)
            else:
                problems.append(f'unexpected blocks {ev}')
        if not ran: problems.append('vacuity: no leaf runs the preempt block')
        if not skipped: problems.append('vacuity: no leaf skips the preempt block')
        L.add('LEAVES', 'failed' if problems else 'discharged', t0, ('C02', 'C08') + (('C15',) if unchecked else ()),
              {'formula': 'preempt P: P runs <=> skipping it leads to defeat (continuation halts) or defeat is virtual; it starts from the state at the statement; '
                          'fp/ap unchanged afterwards', 'message': '; '.join(sorted(set(problems))), 'leaves': len(leaves)})
        if not unchecked: L.prove_all('SAFE', eng.safety, ('C04',))
    finally:
        L.close()
    return res


# ---- speculation -------------------------------------------------------------------------------------------------------------------
def run_speculation(t, lsh, rsh, keep, r_out, w, unchecked):
    t = {'int': I, 'byte': Y, 'bool': B}[t]
    L = Lemma(f'time/speculation/{t}/{lsh}??{rsh}/keep={int(keep)}/{r_out}/w{w}/{"unchecked" if unchecked else "checked"}', w, unchecked)
    L.functions.update(GEN + ['hidc.codegen.generator.CodeGen.eval_expr', 'hidc.codegen.generator.CodeGen.pop_value', 'hidc.codegen.generator.CodeGen.push_value'])
    res = L.results
    try:
        cg = L.cg; c = L.ctx
        c.halting_cont = False
        def mk(sh, nm):
            if sh in ('true', 'false'): return ast.BoolValue(sh == 'true', SPAN)
            return getattr(L, sh)(nm, t)
        a = mk(lsh, 'a'); b = mk(rsh, 'b')
        e = ast.Speculation(SPAN, a, b)
        out = L.guarded_emit(lambda: cg.eval_expr(asm.LabelRef(r_out), e, keep))
        if out is None: return res
        instrs, lines, bubble = out; L.lines = lines
        t0 = time.time(); book = []
        if not (bubble.prev == L.entry_stack) or not (cg.stack == bubble.cur): book.append('bubble bookkeeping')
        if keep and not L.nonvolatile(bubble.value, bubble): book.append('keep=True but volatile result')
        L.add('BOOK', 'failed' if book else 'discharged', t0, ('C02',), {'message': '; '.join(book), 'replay': {'reproduced': True, 'how': 'real method result'}}, backend='harness')
        eng, leaves = L.run_engine(lines); L.last_leaves = leaves
        t0 = time.time(); problems = []
        from hidv.harness import spec as SP

        def value_of(node, S):
            return S.eval(node)
        n_both = n_right = 0
        for l in leaves:
            if l.kind == 'term' and l.tgt == 'child':
                continue
            if l.kind != 'exit' or l.tgt != '<end>':
                problems.append(f'unexpected leaf {l.kind} {l.tgt}'); continue
            S = SP.SpecRun(L, l, list(l.cond))
            try:
                vr = S.eval(b)                     # right operand: always, first
                rest = [e_ for e_ in l.st.trace[S.pos:]]
                got, _ = L.read_accessor(bubble.value, l)
                if S.pos < len(l.st.trace) or (lsh not in ('opaque',)):
                    pass
                if lsh == 'opaque':
                    if S.pos < len(l.st.trace):
                        vl = S.eval(a); n_both += 1
                        if not S.implied(vl != vr): problems.append('left operand\'s evaluation is committed although its value equals the right one')
                        S.require_eq(got, vl, 'value of a ?? b when a differs')
                    else:
                        n_right += 1
                        just = [r for _, r in l.rewinds if r.kind == 'bot']
                        ok = False
                        for r in just:
                            S2 = SP.SpecRun(L, r, list(r.cond))
                            try:
                                vr2 = S2.eval(b); vl2 = S2.eval(a)
                                if S2.pos == len(r.st.trace) and S2.implied(vl2 == vr2): ok = True
                            except SP.Mismatch:
                                pass
                        if not ok: problems.append('left operand skipped although no speculative run showed it equal to the right one')
                        S.require_eq(got, vr, 'value of a ?? b when a is skipped')
                else:
                    # left operand without effects (literal / variable): the value must be a's if it differs, b's otherwise -- the same thing
                    vl = S.eval(a)
                    S.require_eq(got, z3.If(vl != vr, vl, vr), 'value of a ?? b')
                    n_both += 1
                if S.pos != len(l.st.trace): problems.append('extra events')
                S.sync(l.st, 'at exit')
            except SP.Mismatch as m:
                problems.append(m.why)
            except SP.Split as s_:
                problems.append(f'leaf does not determine {s_.c}')
            problems += inv_regs(L, l, defeat=L.entry.regs['defeat'])
        if lsh == 'opaque' and (not n_both or not n_right): problems.append(f'vacuity: both={n_both} right-only={n_right}')
        L.add('LEAVES', 'failed' if problems else 'discharged', t0, ('C02', 'C01') + (('C15',) if unchecked else ()),
              {'formula': 'a ?? b: b evaluated first, always; a committed iff its value differs from b; result a if it differs else b; registers/frame as for any expression',
               'message': '; '.join(sorted(set(problems))), 'leaves': len(leaves)})
        L.nobot(leaves, ('C03',))
        if not unchecked: L.prove_all('SAFE', eng.safety, ('C04',))
    finally:
        L.close()
    return res


def run_speculations(w, unchecked, tier):
    res = []
    for t in ('int', 'byte', 'bool'):
        lshapes = ('opaque', 'local', 'glob') + (('literal',) if t != 'bool' else ('true',))
        rshapes = ('opaque', 'local', 'glob') + (('literal',) if t != 'bool' else ('false',))
        for lsh in lshapes:
            for rsh in rshapes:
                for keep in (False, True):
                    for r_out in (('r1',) if tier == 'quick' and (lsh, rsh) != ('opaque', 'opaque') else ('r0', 'r1', 'r2')):
                        try:
                            res += run_speculation(t, lsh, rsh, keep, r_out, w, unchecked)
                        except Exception as e_:
                            from hidv.oblig import Result as _R, UNDECIDED as _U
                            if type(e_).__name__ not in ('Undecided', 'EngineError'):
                                raise
                            res.append(_R(f'time/speculation/{t}/{lsh}/{rsh}/keep={int(keep)}/{r_out}/w{w}/{"unchecked" if unchecked else "checked"}/LEAVES', _U, 'sphinxsem+z3',
                                          0.0, (), {'message': f'solver budget exhausted: {e_!r}'[:300]}))
    return res


# ---- defeat primitives ---------------------------------------------------------------------------------------------------------------
CONDS = {
    'opaque': lambda L: L.opaque('c', B), 'local': lambda L: L.local('c', B),
    'lt': lambda L: ast.Lt(None, L.opaque('a'), L.opaque('b')), 'eq-lit': lambda L: ast.Eq(None, L.local('a'), L.literal('k')),
    'ge': lambda L: ast.Ge(None, L.opaque('a'), L.glob('b')), 'ne': lambda L: ast.Ne(None, L.opaque('a'), L.opaque('b')),
    'le': lambda L: ast.Le(None, L.opaque('a'), L.opaque('b')), 'gt': lambda L: ast.Gt(None, L.opaque('a'), L.opaque('b')),
    'not': lambda L: ast.Not(None, L.opaque('c', B)), 'not-lt': lambda L: ast.Not(None, ast.Lt(None, L.opaque('a'), L.opaque('b'))),
    'or': lambda L: ast.Or(None, ast.Lt(None, L.opaque('a'), L.opaque('b')), L.opaque('c', B)),
    'and': lambda L: ast.And(None, L.opaque('c', B), L.opaque('d', B)),
    'true': lambda L: ast.BoolValue(True, SPAN), 'false': lambda L: ast.BoolValue(False, SPAN),
    'int-to-bool': lambda L: ast.IntToBool(L.opaque('a')),
    'byte-is-bool': lambda L: ast.IntToBool(ast.ByteToInt(L.opaque('a', Y))),
    'int-is-byte-is-bool': lambda L: ast.IntToBool(ast.ByteToInt(ast.IntToByte(L.opaque('a')))),
    'local-int-is-byte-is-bool': lambda L: ast.IntToBool(ast.ByteToInt(ast.IntToByte(L.local('a')))),
    'not-int-is-byte-is-bool': lambda L: ast.Not(None, ast.IntToBool(ast.ByteToInt(ast.IntToByte(L.opaque('a'))))),
    'not-int-is-byte': lambda L: ast.Not(None, ast.IntToBool(ast.ByteToInt(ast.IntToByte(L.local('a'))))),
    'bool-is-int-is-bool': lambda L: ast.IntToBool(ast.ByteToInt(ast.BoolToByte(L.opaque('c', B)))),
}


def run_defeat_prims(virtual, w, unchecked):
    from hidv.harness import spec as SP
    res = []
    # contexts: real-defeat (try/undo body: defeat is `halt`), variable-defeat (inside a defeat function: the function's own defeat is the
    # variable word), try-stop-body (directly in a try/stop body of a you-function: the *effective* defeat is the variable word, the
    # function's defeat is still `halt`)
    ctxname = {False: 'real-defeat', True: 'variable-defeat', 'try': 'try-stop-body'}[virtual]
    src = 'empty !z() { !is_defeat(); } empty @is_you() {}'
    for cond in list(CONDS) + ['<is_defeat>']:
        L = Lemma(f'time/defeat/{ctxname}/{cond}/w{w}/{"unchecked" if unchecked else "checked"}', w, unchecked, may_defeat=True, virtual_defeat=bool(virtual), src=src)
        L.functions.update(GEN + ['hidc.codegen.generator.CodeGen.truth_is_defeat', 'hidc.codegen.generator.CodeGen.eval_func_call', 'hidc.codegen.generator.compare_map'])
        try:
            cg = L.cg; c = L.ctx
            if virtual == 'try':
                cg.func_defeat = stdlib.halt; cg.needs_variable_defeat = True
            L.glue_may_defeat = True
            from hidc.lexer.tokens import Ident
            if cond == '<is_defeat>':
                e = ast.FuncCall(Ident.defeat('is_defeat'), (), SPAN, DataType.EMPTY)
                arg = None
            else:
                arg = CONDS[cond](L)
                e = ast.FuncCall(Ident.defeat('truth_is_defeat'), (arg,), SPAN, DataType.EMPTY)
            out = L.guarded_emit(lambda: cg.eval_expr(cg.r1, e, False))
            if out is None:
                res += L.results; continue
            instrs, lines, bubble = out; L.lines = lines
            eng, leaves = L.run_engine(lines); L.last_leaves = leaves
            t0 = time.time(); problems = []
            E = L.entry
            kinds = set()
            for l in leaves:
                if l.tag is not None:
                    # the continuation after falling through halts: the construct is then defeat as a whole -- a halt, or (when
                    # defeat is virtual) the jump to the defeat word
                    if not (l.kind == 'bot' or (virtual and l.kind == 'ijump' and P(L, l, l.tgt == E.regs['defeat']))):
                        problems.append(f'with a halting continuation the code would {l.kind} instead of defeat')
                    continue
                if l.kind == 'term' and l.tgt == 'child': continue
                cands = [l] + [r for _, r in l.rewinds if r.kind == 'bot' and r.tag is None]
                okc = False; err = None
                for cand in cands:
                    todo = [list(cand.cond if cand is not l else l.cond)]
                    try:
                        while todo:
                            cnd = todo.pop()
                            S = SP.SpecRun(L, cand, cnd)
                            try:
                                v = z3.IntVal(1) if arg is None else S.eval(arg)
                                defeated = True if arg is None else S.decide(v != 0)
                            except SP.Abrupt as ab:
                                if ab.out.kind == 'child-abnormal' and ab.out.what == 'defeat':
                                    defeated = True
                                else:
                                    raise SP.Mismatch(f'unexpected outcome {ab.out.kind}')
                            except SP.Split as s_:
                                for cc in (s_.c, z3.Not(s_.c)):
                                    if smt.satisfiable(c.all_pre() + cnd + [cc]): todo.append(cnd + [cc])
                                continue
                            if S.pos != len(cand.st.trace): raise SP.Mismatch('extra events')
                            if defeated:
                                kinds.add('defeat')
                                if l.kind == 'bot':
                                    if virtual and not smt.prove(c.all_pre() + cnd, E.regs['defeat'] == c.label('halt')).verdict == smt.PROVED:
                                        raise SP.Mismatch('defeat halts although defeat is virtual (must go to the handler)')
                                elif l.kind == 'ijump':
                                    if smt.prove(c.all_pre() + cnd, l.tgt == E.regs['defeat']).verdict != smt.PROVED:
                                        raise SP.Mismatch('defeat jumps somewhere other than the defeat word')
                                else:
                                    raise SP.Mismatch(f'condition true but the code does {l.kind} {l.tgt}')
                            else:
                                kinds.add('pass')
                                if not (l.kind == 'exit' and l.tgt == '<end>'): raise SP.Mismatch(f'condition false but the code does {l.kind} {l.tgt}')
                                S.sync(l.st, 'at exit')
                        okc = True; break
                    except SP.Mismatch as m:
                        err = err or m.why
                if not okc: problems.append(err or 'no justification')
                if l.kind == 'exit': problems += inv_regs(L, l, defeat=E.regs['defeat'])
            want = {'defeat'} if cond in ('<is_defeat>', 'true') else ({'pass'} if cond == 'false' else {'defeat', 'pass'})
            if not want <= kinds: problems.append(f'vacuity: {sorted(kinds)}')
            L.add('LEAVES', 'failed' if problems else 'discharged', t0, ('C02', 'C09', 'C01') + (('C03',) if virtual else ()) + (('C15',) if unchecked else ()),
                  {'formula': '!truth_is_defeat(c): operands evaluated once, in order; defeat (halt, or jump to the defeat word when virtual) <=> c; otherwise falls through unchanged',
                   'message': '; '.join(sorted(set(problems))), 'leaves': len(leaves)})
            if not unchecked: L.prove_all('SAFE', eng.safety, ('C04',))
        finally:
            L.close()
        res += L.results
    return res


def ob_preemptive_marker(w=2):
    """README "Preemptive defeat functions": a defeat function that contains a preempt block *anywhere* in it (even if unreachable) is preemptive,
    and (checked builds) every return of a preemptive defeat function is protected.  Structural contract on the real parser + Block.preemptive +
    gen_func: for every nesting of block constructs (depth <= 3) around one `preempt {}` -- and for the same nestings without it --
    body.preemptive <=> a preempt block occurs, and the function's code jumps to nonlocal_preempt before returning <=> preemptive and checked."""
    import itertools, time
    from hidv.oblig import Result, DISCHARGED, FAILED
    from hidv.sphinx import svm
    from hidc.lexer import SourceCode
    from hidc.parser import parse
    from hidc.ast import Environment
    from hidc.lexer.tokens import Ident
    t0 = time.time()
    wrappers = {
        'block': '{ %s }', 'if': 'if (x > 0) { %s }', 'else': 'if (x > 0) { x = 1; } else { %s }', 'while': 'while (x > 0) { x -= 1; %s }',
        'for': 'for (int i@ = 0; i@ < x; i@ += 1) { %s }', 'for-bare': 'for (;;) { %s break; }', 'preempt-outer': 'preempt { %s }',
    }
    bad = []; n = 0
    for depth in (0, 1, 2, 3):
        for nest in itertools.product(wrappers, repeat=depth):
            for inner, has in (('preempt { x = 2; }', True), ('x = 3;', False)):
                body = inner
                for d_, wname in reversed(list(enumerate(nest))):
                    body = wrappers[wname].replace('@', str(d_)) % body
                expect = has or 'preempt-outer' in nest
                src = 'empty !f(int x) { %s }\nempty @is_you() { try { !f(1); } undo { } }' % body
                n += 1
                try:
                    env = Environment.empty()
                    parse(SourceCode.from_string(src)).evaluate(env)
                    decl, = env.funcs[Ident.defeat('f')].values()
                    got = decl.body.preemptive
                    lines = {u: svm.compile_hid(src, word_size=w, unchecked=u) for u in (False, True)}
                except Exception as e:
                    bad.append({'program': src, 'raises': repr(e)}); continue
                prot = {u: any(l.strip() == b'j nonlocal_preempt' for l in lines[u]) for u in lines}
                if got != expect:
                    bad.append({'program': src, 'preemptive': got, 'documented': expect})
                elif prot[False] != expect or prot[True]:
                    bad.append({'program': src, 'return_protected': prot, 'documented': {'checked': expect, 'unchecked': False}})
            if len(bad) > 6: break
    det = {'formula': 'defeat function body.preemptive <=> a preempt block occurs anywhere inside; returns protected <=> preemptive and checked build', 'domain': n,
           'functions': ['hidc.parser.grammar.ps_code_block', 'hidc.parser.grammar.ps_block', 'hidc.ast.blocks.LoopBlock.for_loop', 'hidc.ast.blocks.LoopBlock.while_loop',
                         'hidc.ast.blocks.IfBlock.preemptive', 'hidc.ast.blocks.LoopBlock.preemptive', 'hidc.ast.blocks.CodeBlock.evaluate', 'hidc.ast.program.FuncDeclaration.evaluate',
                         'hidc.codegen.generator.CodeGen.gen_func']}
    if bad:
        w0 = bad[0]
        rep = {'reproduced': True, 'how': 'real parser/typechecker/generator on the witness program', 'observed': w0}
        try:
            res, vm = svm.run_hid(w0['program'].replace('try { !f(1); }', 'try { !f(1); !is_defeat(); }'), word_size=w)
            rep['run'] = {'end': res, 'flags': vm.flags, 'documented': 'nonlocal_preempt error when the function is preemptive and safety is not provided'}
        except Exception as e:
            rep['run'] = repr(e)
        det.update(model=bad[:4], replay=rep)
    return [Result('time/preemptive-marker/structural', FAILED if bad else DISCHARGED, 'enum', time.time() - t0, (), det)]


def tasks(tier):
    out = [task(MOD, 'ob_preemptive_marker', ('C02', 'C05'), label='time/preemptive-marker', cost=3)]
    P = ('C01', 'C02', 'C03', 'C04', 'C07', 'C08', 'C09', 'C10', 'C14', 'C15', 'C16')
    for w in ((2,) if tier == 'quick' else (2, 3, 4)):          # w = 8: see DESIGN 16.10
        for unchecked in (False, True):
            if unchecked and tier == 'quick':
                # time travel is control logic, not a run-time check: the same leaf sets in an unchecked build (C15); the cheap families only
                out.append(task(MOD, 'run_try_undo', P, label=f'time/try-undo/w{w}/u1', w=w, unchecked=True, cost=3))
                out.append(task(MOD, 'run_try_stop', P, label=f'time/try-stop/w{w}/u1', w=w, unchecked=True, cost=5))
                for virtual in (False, True, 'try'):
                    vn = {False: 0, True: 1, 'try': 'try'}[virtual]
                    out.append(task(MOD, 'run_preempt', P, label=f'time/preempt/v{vn}/w{w}/u1', virtual=virtual, w=w, unchecked=True, cost=3))
                continue
            out.append(task(MOD, 'run_try_undo', P, label=f'time/try-undo/w{w}/u{int(unchecked)}', w=w, unchecked=unchecked, cost=3))
            out.append(task(MOD, 'run_try_stop', P, label=f'time/try-stop/w{w}/u{int(unchecked)}', w=w, unchecked=unchecked, cost=5))
            for virtual in (False, True, 'try'):
                vn = {False: 0, True: 1, 'try': 'try'}[virtual]
                out.append(task(MOD, 'run_preempt', P, label=f'time/preempt/v{vn}/w{w}/u{int(unchecked)}', virtual=virtual, w=w, unchecked=unchecked, cost=3))
                out.append(task(MOD, 'run_defeat_prims', P, label=f'time/defeat/v{vn}/w{w}/u{int(unchecked)}', virtual=virtual, w=w, unchecked=unchecked, cost=10))
            out.append(task(MOD, 'run_speculations', P, label=f'time/speculation/w{w}/u{int(unchecked)}', w=w, unchecked=unchecked, tier=tier, cost=20))
    return out
