"""C13 (emission of constant data): make_global / add_global_array / label_for_string / pack_bools / string table of gen_lines.

  FRAME   add_global_array, label_for_string and add_label read and write only the tables they are documented to (reads/modifies clause over the
          function's own AST): a new table consulted there (e.g. a de-duplication cache) changes which storage two constants share
  DATA    for constant arrays of every element type and every length 0..40 (int/byte/string: content patterns; bool: all contents up to length 10
          and patterns up to 40) the real make_global returns a reference whose length is the literal's length and whose directive, read back with
          the stated assembler grammar, is exactly the data (bool: bit i%8 of byte i/8) -- enum on the real methods
  PAIRS   after emitting two constant arrays, both references still denote their own data and length (no interference)
  STRINGS the string table of gen_lines: one entry per distinct byte string: length word = len, bytes = the string
"""
from __future__ import annotations
import ast as pyast, itertools, time
from hidv.oblig import task, Result, DISCHARGED, FAILED, UNDECIDED
from hidv.pyvc import core as V
from hidv.sphinx import reader

MOD = 'contracts.lem_global'


def mods():
    from hidc import ast
    from hidc.ast import DataType, ArrayType
    from hidc.codegen import asm, generator
    from hidv.harness.vcg import make_codegen, SPAN
    return ast, DataType, ArrayType, asm, generator, make_codegen, SPAN


READS = {
    'add_global_array': {'max_length', 'add_label', 'const_data', 'state_data'},
    'label_for_string': {'string_labels', 'add_label'},
    'add_label': {'numbered_labels'},
    'label_for_func': {'func_labels', 'add_label', 'func_queue'},
    'pack_bools': set(),
}


def ob_frame():
    ast, DT, AT, asm, generator, make_codegen, SPAN = mods()
    t0 = time.time(); bad = []
    for fn, allowed in READS.items():
        f, node = V.get_function(f'CodeGen.{fn}', generator)
        used = {n.attr for n in pyast.walk(node) if isinstance(n, pyast.Attribute) and isinstance(n.value, pyast.Name) and n.value.id == 'self'}
        extra = used - allowed
        if extra: bad.append({'function': fn, 'also_uses': sorted(extra), 'contract_allows': sorted(allowed)})
    det = {'formula': 'reads/modifies clauses: add_global_array uses only max_length/add_label/const_data/state_data; label_for_string only string_labels/add_label; add_label only numbered_labels; label_for_func only func_labels/add_label/func_queue',
           'functions': [f'hidc.codegen.generator.CodeGen.{k}' for k in READS]}
    if bad: det.update(model=bad, replay=replay_pairs())
    return [Result('C13/global-data/frame', FAILED if bad else DISCHARGED, 'pyvc-syntactic', time.time() - t0, (), det)]


def decode(directive, w):
    lines = list(directive.lines())
    prog = reader.parse_lines(lines, section='const')
    out = bytearray()
    for it in prog.items:
        if not isinstance(it, reader.Data): continue
        if it.kind == 'ascii': out += it.items[0]
        elif it.kind == 'zero': out += bytes(it.items[0][1] * (w if it.items[0][0] == 'w' else 1))
        else:
            size = w if it.kind == 'word' else 1
            for e in it.items:
                out += (const_eval(e, w) % (1 << (8 * size))).to_bytes(size, 'little')
    return bytes(out)


def expected_bytes(el, vals, w):
    ast, DT, *_ = mods()
    if el == DT.BOOL:
        out = bytearray((len(vals) + 7) // 8)
        for i, v in enumerate(vals):
            if v: out[i // 8] |= 1 << (i % 8)
        return bytes(out)
    size = 1 if el == DT.BYTE else w
    return b''.join((v % (1 << (8 * size))).to_bytes(size, 'little') for v in vals)


def literal(el, vals):
    ast, DT, AT, asm, generator, make_codegen, SPAN = mods()
    mk = {DT.INT: lambda v: ast.IntValue(v, SPAN), DT.BYTE: lambda v: ast.ByteValue(v, SPAN), DT.BOOL: lambda v: ast.BoolValue(bool(v), SPAN)}[el]
    return ast.ArrayLiteral(tuple(mk(v) for v in vals), SPAN, AT(el, True), True)


def arrays_domain(DT):
    out = []
    for n in range(0, 41):
        out.append((DT.INT, [(7 * i + 1) % 65536 for i in range(n)]))
        out.append((DT.INT, [65535 - i for i in range(n)]))
        out.append((DT.BYTE, [(i * 37 + 11) % 256 for i in range(n)]))
        out.append((DT.BYTE, [255] * n))
        for pat in (lambda i: True, lambda i: False, lambda i: i % 2 == 0, lambda i: i % 3 == 0, lambda i: i == n - 1):
            out.append((DT.BOOL, [pat(i) for i in range(n)]))
    for n in range(0, 11):
        for bits in itertools.product((False, True), repeat=n):
            out.append((DT.BOOL, list(bits)))
    return out


def check_ref(cg, ref, el, vals, w, const=True):
    from hidc.codegen import asm
    problems = []
    if not (isinstance(ref.length, asm.IntLiteral) and ref.length.data == len(vals)):
        problems.append(f'length {getattr(ref.length, "data", ref.length)} instead of {len(vals)}')
    d = (cg.const_data if const else cg.state_data).get(ref.origin)
    if d is None:
        problems.append('no data emitted under the returned label')
    else:
        try:
            got = decode(d, w)
            want = expected_bytes(el, vals, w)
            if got != want: problems.append(f'data {got.hex()} instead of {want.hex()}')
        except (reader.AsmSyntaxError, ValueError) as e:
            problems.append(f'directive not well-formed: {e}')
    return problems


def ob_data(w):
    ast, DT, AT, asm, generator, make_codegen, SPAN = mods()
    t0 = time.time(); bad = []; n = 0
    for el, vals in arrays_domain(DT):
        for const in (True, False):
            cg = make_codegen(w, False)
            n += 1
            try:
                ref = cg.make_global(literal(el, vals), const=const)
            except Exception as e:
                bad.append({'array': f'{el} x{len(vals)}', 'raises': repr(e)}); continue
            p = check_ref(cg, ref, el, vals, w, const)
            if p: bad.append({'array': f'{"const " if const else ""}{el}[{len(vals)}] {vals[:12]}', 'problems': p})
        if len(bad) > 5: break
    # pack_bools directly
    for k in range(0, 13):
        for bits in itertools.product((False, True), repeat=k):
            n += 1
            got = bytes(generator.CodeGen.pack_bools(list(bits)))
            if got != expected_bytes(DT.BOOL, list(bits), w): bad.append({'pack_bools': list(bits), 'got': got.hex()}); break
    det = {'formula': 'make_global(constant array): returned length = number of elements; emitted directive reads back (stated grammar) as exactly the element data; '
                      'pack_bools: bit i%8 of byte i/8 = element i, other bits 0', 'domain': n,
           'functions': ['hidc.codegen.generator.CodeGen.make_global', 'hidc.codegen.generator.CodeGen.add_global_array', 'hidc.codegen.generator.CodeGen.pack_bools',
                         'hidc.codegen.asm.ByteDirective.lines', 'hidc.codegen.asm.WordDirective.lines']}
    if bad: det.update(model=bad[:5], replay={'reproduced': True, 'how': 'real make_global evaluated by CPython', 'observed': bad[0]})
    return [Result(f'C13/global-data/w{w}/content-and-length', FAILED if bad else DISCHARGED, 'enum', time.time() - t0, (), det)]


def pair_domain(DT):
    arrs = []
    for n in (0, 1, 3, 5, 8, 9):
        arrs.append((DT.BOOL, [i % 2 == 0 for i in range(n)]))
        arrs.append((DT.BOOL, [True] * n))
        arrs.append((DT.BOOL, [i < 3 and i % 2 == 0 for i in range(n)]))
        arrs.append((DT.BYTE, [1] * n))
        arrs.append((DT.BYTE, [i + 1 for i in range(n)]))
        arrs.append((DT.INT, [1] * n))
        arrs.append((DT.INT, [i + 1 for i in range(n)]))
    return arrs


def replay_pairs(w=2):
    ast, DT, AT, asm, generator, make_codegen, SPAN = mods()
    bad = []
    arrs = pair_domain(DT)
    for (e1, v1), (e2, v2) in itertools.product(arrs, repeat=2):
        cg = make_codegen(w, False)
        try:
            r1 = cg.make_global(literal(e1, v1), const=True); r2 = cg.make_global(literal(e2, v2), const=True)
        except Exception as e:
            bad.append({'first': str((e1, v1)), 'second': str((e2, v2)), 'raises': repr(e)}); break
        p = check_ref(cg, r1, e1, v1, w) + check_ref(cg, r2, e2, v2, w)
        if p:
            bad.append({'first': f'{e1}{v1}', 'second': f'{e2}{v2}', 'problems': p}); break
    return {'reproduced': bool(bad), 'how': 'two constant arrays emitted one after the other by the real make_global', 'observed': bad[:1] or 'no interference found', 'pairs': len(arrs) ** 2}


def ob_pairs(w):
    t0 = time.time()
    r = replay_pairs(w)
    det = {'formula': 'after emitting two constant arrays both references keep their own length and data', 'domain': r['pairs'],
           'functions': ['hidc.codegen.generator.CodeGen.add_global_array', 'hidc.codegen.generator.CodeGen.make_global']}
    if r['reproduced']: det.update(model=r['observed'], replay=r)
    return [Result(f'C13/global-data/w{w}/pairs-do-not-interfere', FAILED if r['reproduced'] else DISCHARGED, 'enum', time.time() - t0, (), det)]


def ob_strings(w):
    """string table: label_for_string + the const section emitted by the real gen_lines"""
    from hidv.sphinx import svm
    t0 = time.time(); bad = []
    strings = [b'', b'a', b'\\', b'"', b"'", b'\n\r\t\x00', bytes(range(256)), b'hello', b'hello', bytes([92, 34]), bytes([0x5c] * 3), 'é€\U0001F30E'.encode()]
    def lit(b):
        out = ''
        for c in b:
            out += '\\x%02x' % c
        return '"' + out + '"'
    # long constants: every length 0..200 with bytes that need escaping at every phase (a directive may not depend on where in the string they fall)
    from hidc.codegen import asm as _asm
    specials = b'"\\\n\r\t\x00\'\x7f\xff'
    for n_ in range(0, 201):
        for phase in range(0, 7):
            data = bytes(specials[(i // 7) % len(specials)] if i % 7 == phase else 97 + i % 26 for i in range(n_))
            try:
                got = decode(_asm.AsciiDirective(data), w)
            except (reader.AsmSyntaxError, ValueError) as e:
                got = f'not well-formed: {e}'
            if got != data:
                bad.append({'problem': 'a long string constant is not emitted faithfully', 'length': n_, 'data': data.hex()[:80], 'read_back': got.hex()[:80] if isinstance(got, bytes) else got[:200]})
                break
        if bad: break
    src = 'empty @is_you() { ' + ' '.join(f'write({lit(s)});' for s in strings) + ' }'
    try:
        lines = svm.compile_hid(src, word_size=w)
        img = svm.Image(lines)
        vm = svm.VM(image=img)
        res = vm.run(2_000_000)
        want = b''.join(strings)
        if res != 'win' or vm.out != want:
            bad.append({'problem': 'printing the constants does not give their bytes', 'end': res, 'printed': vm.out[:60].hex(), 'documented': want[:60].hex()})
        labels = {k: v for k, v in img.labels.items() if k.startswith('string_')}
        if len(labels) != len(set(strings)): bad.append({'problem': 'number of string table entries differs from the number of distinct strings', 'entries': len(labels), 'distinct': len(set(strings))})
        for k, a in labels.items():
            ln = int.from_bytes(img.const[a:a + w], 'little')
            data = bytes(img.const[a + w:a + w + ln])
            if data not in set(strings): bad.append({'label': k, 'length': ln, 'data': data[:20].hex(), 'problem': 'entry is not one of the literals'})
    except (reader.AsmSyntaxError, svm.VMError) as e:
        bad.append({'problem': f'the emitted assembly is not well-formed / does not run: {type(e).__name__}: {e}'[:400], 'program': src[:200]})
    det = {'formula': 'string table: one (length word, bytes) entry per distinct literal; writing the literals prints exactly their bytes (all 256 byte values included)',
           'domain': len(strings), 'functions': ['hidc.codegen.generator.CodeGen.label_for_string', 'hidc.codegen.generator.CodeGen.gen_lines', 'hidc.codegen.asm.AsciiDirective.lines',
                                                 'hidc.codegen.asm.lines']}
    if bad: det.update(model=bad[:3], replay={'reproduced': True, 'how': 'hidc-compiled program assembled and run on hidv.sphinx.svm', 'observed': bad[0]})
    return [Result(f'C13/string-table/w{w}', FAILED if bad else DISCHARGED, 'enum+svm', time.time() - t0, (), det)]


def const_eval(e, w):
    k = e[0]
    if k == 'int': return e[1]
    if k == 'w': return e[1] * w
    if k == 'neg': return -const_eval(e[1], w)
    if k == 'add': return const_eval(e[1], w) + const_eval(e[2], w)
    if k == 'sub': return const_eval(e[1], w) - const_eval(e[2], w)
    if k == 'and': return const_eval(e[1], w) & const_eval(e[2], w)
    raise ValueError(f'not a constant expression: {e!r}')


def ob_scalars(w):
    """make_global on a scalar initialiser / lookup_var on globals: a const scalar is used as an immediate whose value is the literal (wrapped to the
    element size), a mutable one is a labelled word/byte in the state section initialised with it; globals are created once and shared by every use."""
    ast, DT, AT, asm, generator, make_codegen, SPAN = mods()
    from hidv.sphinx import svm
    t0 = time.time(); bad = []; n = 0
    M = 1 << (8 * w)
    ints = sorted({0, 1, 2, 7, 255, 256, 257, M // 2 - 1, M - 1, -1, -2, -255, -256, -(M // 2)} | {(1 << k) for k in range(0, 8 * w - 1)} | {-(1 << k) for k in range(0, 8 * w)})
    for const in (True, False):
        for t, vals in ((DT.INT, ints), (DT.BYTE, list(range(256))), (DT.BOOL, [False, True])):
            for v in vals:
                n += 1
                lit = {DT.INT: lambda: ast.IntValue(v, SPAN), DT.BYTE: lambda: ast.ByteValue(v, SPAN), DT.BOOL: lambda: ast.BoolValue(v, SPAN)}[t]()
                cg = make_codegen(w, False)
                try:
                    acc = cg.make_global(lit, const=const, label_prefix='var_x')
                except Exception as e:
                    bad.append({'value': f'{t} {v}', 'raises': repr(e)}); continue
                size = w if t == DT.INT else 1
                want = (int(v) % (1 << (8 * size))).to_bytes(size, 'little')
                if const:
                    if not isinstance(acc, asm.Immediate): bad.append({'value': f'const {t} {v}', 'problem': f'not an immediate: {acc!r}'}); continue
                    try:
                        got = (const_eval(reader.parse_expr(bytes(acc)), w) % (1 << (8 * size))).to_bytes(size, 'little')
                    except Exception as ex:
                        got = repr(ex)
                    if got != want: bad.append({'value': f'const {t} {v}', 'immediate': bytes(acc).decode(), 'problem': 'immediate does not denote the literal'})
                else:
                    lbl = getattr(acc, 'immed', None) or getattr(acc, 'label', None)
                    d = cg.state_data.get(lbl)
                    if d is None: bad.append({'value': f'{t} {v}', 'problem': f'no state data under {lbl!r}'}); continue
                    if (t != DT.INT) != isinstance(acc, asm.StateByte): bad.append({'value': f'{t} {v}', 'problem': 'accessor width does not match the type'})
                    try:
                        got = decode(d, w)
                    except Exception as ex:
                        got = repr(ex)
                    if got != want: bad.append({'value': f'{t} {v}', 'data': str(got), 'problem': 'initial data does not denote the literal'})
            if len(bad) > 5: break
    # whole pipeline: globals of every kind are created on first use, once, and every use sees the same storage
    src = ('int g = -5; const int c = 7; byte b = 200; bool t = true; bool f = false; int[] arr = [1, 2]; const int[] ca = [3]; int z[3]; string s = "x"; '
           'const string[] ss = ["a", "bc"]; byte[] by = [65, 66]; bool[] bl = [true, false, true, true, false, false, false, false, true];\n'
           'empty bump() { g += 1; arr[0] += 10; z[1] = 9; b += 1; bl[1] = true; }\n'
           'empty @is_you() { bump(); bump(); write(g); write(" "); write(c); write(" "); write(b is int); write(" "); write(t); write(f); write(" "); write(arr[0]); write(arr[1]); '
           'write(" "); write(ca[0]); write(z[0]); write(z[1]); write(z[2]); write(s); write(ss[1]); write(by); write(" "); write(bl[0]); write(bl[1]); write(bl[8]); write(bl.length); }')
    want = b'-3 7 202 truefalse 212 3090xbcAB truetruetrue9'
    try:
        res, vm = svm.run_hid(src, word_size=w)
        if res != 'win' or vm.out != want:
            bad.append({'program': src, 'end': res, 'flags': vm.flags, 'printed': vm.out.decode('latin1'), 'documented': want.decode()})
    except Exception as e:
        bad.append({'program': src, 'raises': repr(e)})
    n += 1
    det = {'formula': 'const scalar -> immediate denoting the literal; mutable scalar -> labelled state word/byte initialised with it; each global created once', 'domain': n,
           'functions': ['hidc.codegen.generator.CodeGen.make_global', 'hidc.codegen.generator.CodeGen.lookup_var', 'hidc.codegen.asm.IntLiteral.__bytes__']}
    if bad: det.update(model=bad[:4], replay={'reproduced': True, 'how': 'real make_global / hidc-compiled program on hidv.sphinx.svm', 'observed': bad[0]})
    return [Result(f'C13/global-data/w{w}/scalars-and-sharing', FAILED if bad else DISCHARGED, 'enum+svm', time.time() - t0, (), det)]


def tasks(tier):
    out = [task(MOD, 'ob_frame', ('C13', 'C18'), label='global/frame')]
    for w in ((2,) if tier == 'quick' else (2, 3, 4, 8)):
        out.append(task(MOD, 'ob_data', ('C13', 'C10'), label=f'global/data/w{w}', w=w, cost=6))
        out.append(task(MOD, 'ob_pairs', ('C13',), label=f'global/pairs/w{w}', w=w, cost=4))
        out.append(task(MOD, 'ob_scalars', ('C13', 'C01'), label=f'global/scalars/w{w}', w=w, cost=2))
        out.append(task(MOD, 'ob_strings', ('C13',), label=f'global/strings/w{w}', w=w, cost=2))
    return out
