"""Simulation lemmas for scalar expressions: the real CodeGen.eval_expr cases on abstract operands (C01, C03, C04, C05,
C08, C09, C10, C15).  One lemma = one real construct x operand shapes x keep x r_out x word size x build."""
from __future__ import annotations
import itertools
from hidv.oblig import task
from hidv.harness.lemma import Lemma
from hidc import ast
from hidc.ast import DataType

MOD = 'contracts.lem_expr'
GEN = ['hidc.codegen.generator.CodeGen.eval_expr', 'hidc.codegen.generator.CodeGen.get_expr_value',
       'hidc.codegen.generator.CodeGen.pop_value', 'hidc.codegen.generator.CodeGen.push_value', 'hidc.codegen.generator.CodeGen.pop',
       'hidc.codegen.generator.CodeGen.reserve_word', 'hidc.codegen.generator.CodeGen.reserve_byte', 'hidc.codegen.generator.CodeGen.reserve_type',
       'hidc.codegen.generator.CodeGen.vacpack', 'hidc.codegen.generator.CodeGen.is_safe', 'hidc.codegen.generator.CodeGen.lookup_var',
       'hidc.codegen.asm.lines', 'hidc.codegen.asm.Instruction.lines', 'hidc.codegen.asm.ImmedDestInstruction.args',
       'hidc.codegen.asm.IntLiteral.__bytes__', 'hidc.codegen.asm.State.__bytes__', 'hidc.codegen.asm.Indirect', 'hidc.codegen.asm.IndirectByte',
       'hidc.codegen.asm.State', 'hidc.codegen.asm.StateByte']

BINOPS = {'Add': ast.Add, 'Sub': ast.Sub, 'Mul': ast.Mul, 'Div': ast.Div, 'Mod': ast.Mod}
CMPOPS = {'Eq': ast.Eq, 'Ne': ast.Ne, 'Lt': ast.Lt, 'Le': ast.Le, 'Gt': ast.Gt, 'Ge': ast.Ge}
SHAPES = ('opaque', 'literal', 'local', 'glob')
WIDTHS = {'quick': (2,), 'thorough': (2, 3, 4, 8)}


def props(unchecked, *, operator=False, fault=False):
    sim = ['C01'] + (['C09'] if operator else []) + (['C05'] if fault and not unchecked else []) + (['C15'] if unchecked else [])
    return {'SIM': tuple(sim), 'INV': ('C08',) + (('C15',) if unchecked else ()), 'NOBOT': ('C03',), 'SAFE': ('C04',),
            'NOERR': ('C10',)}


def variants(tier, n_operands):
    """(shapes tuple, keep, r_out)"""
    out = []
    for sh in itertools.product(SHAPES, repeat=n_operands):
        for keep in (False, True):
            out.append((sh, keep, 'r1'))
    base = ('opaque',) * n_operands
    for r in ('r0', 'r2'):
        for keep in (False, True):
            out.append((base, keep, r))
    if tier == 'thorough':
        for sh in itertools.product(SHAPES, repeat=n_operands):
            for r in ('r0', 'r2'):
                out.append((sh, True, r)); out.append((sh, False, r))
    return out


def operand(L, shape, name, t=DataType.INT):
    if shape in ('true', 'false'):
        return ast.BoolValue(shape == 'true', None)
    if shape == 'smallint':
        # an immediate the typechecker can hand to a cast: array lengths, 0 <= K <= max_signed
        return ast.IntValue(L.sym("K" + name, 0, (1 << (L.bits - 1)) - 1), None)
    return getattr(L, shape)(name, t)


def shapes_for(t):
    if t == 'I_nolit':
        return ('opaque', 'local', 'glob', 'smallint')
    if t == DataType.BOOL:
        return ('opaque', 'local', 'glob', 'true', 'false')
    return SHAPES


def variants_t(tier, types):
    """(shapes tuple, keep, r_out) for operands of the given types"""
    out = []
    for sh in itertools.product(*[shapes_for(t) for t in types]):
        for keep in (False, True):
            out.append((sh, keep, 'r1'))
    base = ('opaque',) * len(types)
    for r in ('r0', 'r2'):
        for keep in (False, True):
            out.append((base, keep, r))
    if tier == 'thorough':
        for sh in itertools.product(*[shapes_for(t) for t in types]):
            for r in ('r0', 'r2'):
                out.append((sh, True, r)); out.append((sh, False, r))
    return out


I, B, Y = DataType.INT, DataType.BOOL, DataType.BYTE

# family -> op -> (operand types, builder(operands) -> expression, fault?)
FAMILIES = {
    'binop': {op: ((I, I), (lambda c: (lambda a, b: c(None, a, b)))(cls), op in ('Div', 'Mod')) for op, cls in BINOPS.items()},
    'cmp': {**{op: ((I, I), (lambda c: (lambda a, b: c(None, a, b)))(cls), False) for op, cls in CMPOPS.items()},
            'EqBool': ((B, B), lambda a, b: ast.Eq(None, a, b), False),
            'NeBool': ((B, B), lambda a, b: ast.Ne(None, a, b), False)},
    'unop': {'Pos': ((I,), lambda a: ast.Pos(None, a), False),
             'Neg': ((I,), lambda a: ast.Neg(None, a), False),
             'Not': ((B,), lambda a: ast.Not(None, a), False),
             'NotNot': ((B,), lambda a: ast.Not(None, ast.Not(None, a)), False)},
    'cast': {'IntToByte': ((I,), lambda a: ast.IntToByte(a), False),
             'ByteToInt': ((Y,), lambda a: ast.ByteToInt(a), False),
             'BoolToByte': ((B,), lambda a: ast.BoolToByte(a), False),
             'BoolToInt': ((B,), lambda a: ast.ByteToInt(ast.BoolToByte(a)), False),
             'IntToBool': (('I_nolit',), lambda a: ast.IntToBool(a), False),
             'ByteToBool': ((Y,), lambda a: ast.IntToBool(ast.ByteToInt(a)), False),
             'IntToByteToInt': ((I,), lambda a: ast.ByteToInt(ast.IntToByte(a)), False)},
    'logic': {'And': ((B, B), lambda a, b: ast.And(None, a, b), False),
              'Or': ((B, B), lambda a, b: ast.Or(None, a, b), False),
              'NotAnd': ((B, B), lambda a, b: ast.Not(None, ast.And(None, a, b)), False),
              'AndOr': ((B, B, B), lambda a, b, c: ast.And(None, ast.Or(None, a, b), c), False),
              'OrAnd': ((B, B, B), lambda a, b, c: ast.Or(None, a, ast.And(None, b, c)), False),
              'AndCmp': ((I, I, B), lambda a, b, c: ast.And(None, ast.Lt(None, a, b), c), False),
              'OrNotCmp': ((I, I, B), lambda a, b, c: ast.Or(None, ast.Not(None, ast.Ge(None, a, b)), c), False),
              'AndIntToBool': (('I_nolit', B), lambda a, b: ast.And(None, ast.IntToBool(a), b), False)},
    'leaf': {'Int': ((I,), lambda a: a, False), 'Byte': ((Y,), lambda a: a, False), 'Bool': ((B,), lambda a: a, False)},
}
EXTRA_FUNCS = {
    'binop': ['hidc.codegen.generator.CodeGen.arith_op_reg_arg', 'hidc.codegen.generator.arith_map'],
    'cmp': ['hidc.codegen.generator.CodeGen.bool_expr_branch', 'hidc.codegen.generator.compare_map', 'hidc.codegen.generator.halt_inversion',
            'hidc.codegen.generator.CodeGen.goto', 'hidc.codegen.generator.CodeGen.is_goto'],
    'unop': ['hidc.codegen.generator.CodeGen.un_op_reg_arg', 'hidc.codegen.generator.CodeGen.bool_expr_branch'],
    'cast': ['hidc.codegen.asm.State.access_byte', 'hidc.codegen.asm.Indirect.access_byte', 'hidc.codegen.asm.IntLiteral.access_byte',
             'hidc.codegen.asm.Immediate.access_byte'],
    'logic': ['hidc.codegen.generator.CodeGen.bool_expr_branch', 'hidc.codegen.generator.halt_inversion', 'hidc.codegen.generator.CodeGen.goto',
              'hidc.codegen.generator.CodeGen.is_goto'],
    'leaf': [],
}


def run_family(family, op, w, unchecked, tier):
    res = []
    types, build, fault = FAMILIES[family][op]
    operator = family != 'leaf'
    vs = variants_t(tier, types)
    if len(types) == 3 and tier == 'quick':      # keep the quick tier small: all-opaque plus one varied operand at a time
        vs = [v for v in vs if sum(1 for x in v[0] if x != 'opaque') <= 1]
    work = [(sh, keep, r_out, ()) for sh, keep, r_out in vs]
    while work:
        sh, keep, r_out, dec = work.pop()
        fk = ('/fork=' + ''.join('T' if d else 'F' for d in dec)) if dec else ''
        L = Lemma(f'expr/{family}/{op}/w{w}/{"unchecked" if unchecked else "checked"}/{",".join(sh)}/keep={int(keep)}/{r_out}{fk}',
                  w, unchecked, decisions=dec)
        L.functions.update(GEN + EXTRA_FUNCS[family])
        try:
            args = [operand(L, s, n, I if t == 'I_nolit' else t) for s, n, t in zip(sh, 'abc', types)]
            e = build(*args)
            cov = [('exit', '<end>')] + ([('term', 'division_by_zero')] if fault and not unchecked else [])
            res += L.check_scalar_expr(e, r_out, keep, props(unchecked, operator=operator, fault=fault), cov)
            work += [(sh, keep, r_out, d) for d in L.pending_forks()]
        finally:
            L.close()
    return res


def tasks(tier):
    out = []
    for w in WIDTHS[tier]:
        for unchecked in (False, True):
            for family, ops in FAMILIES.items():
                for op in ops:
                    out.append(task(MOD, 'run_family', ('C01', 'C03', 'C04', 'C05', 'C08', 'C09', 'C10', 'C15'),
                                    label=f'expr/{family}/{op}/w{w}/u{int(unchecked)}', cost=10 * len(ops[op][0]),
                                    family=family, op=op, w=w, unchecked=unchecked, tier=tier))
    return out
