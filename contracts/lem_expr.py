"""Simulation lemmas for scalar expressions: the real CodeGen.eval_expr cases on abstract operands (C01, C03, C04, C05,
C08, C09, C10, C15).  One lemma = one real construct x operand shapes x keep x r_out x word size x build."""
from __future__ import annotations
import itertools
from hidv.oblig import task
from hidv.harness.lemma import Lemma
from hidc import ast
from hidc.ast import DataType

MOD = 'contracts.lem_expr'
GEN = ['hidc.codegen.generator.CodeGen.eval_expr', 'hidc.codegen.generator.CodeGen.get_expr_value',
       'hidc.codegen.generator.CodeGen.pop_value', 'hidc.codegen.generator.CodeGen.push_value', 'hidc.codegen.generator.CodeGen.pop',
       'hidc.codegen.generator.CodeGen.reserve_word', 'hidc.codegen.generator.CodeGen.reserve_byte', 'hidc.codegen.generator.CodeGen.reserve_type',
       'hidc.codegen.generator.CodeGen.vacpack', 'hidc.codegen.generator.CodeGen.is_safe', 'hidc.codegen.generator.CodeGen.lookup_var',
       'hidc.codegen.asm.lines', 'hidc.codegen.asm.Instruction.lines', 'hidc.codegen.asm.ImmedDestInstruction.args',
       'hidc.codegen.asm.IntLiteral.__bytes__', 'hidc.codegen.asm.State.__bytes__', 'hidc.codegen.asm.Indirect', 'hidc.codegen.asm.IndirectByte',
       'hidc.codegen.asm.State', 'hidc.codegen.asm.StateByte']

BINOPS = {'Add': ast.Add, 'Sub': ast.Sub, 'Mul': ast.Mul, 'Div': ast.Div, 'Mod': ast.Mod}
CMPOPS = {'Eq': ast.Eq, 'Ne': ast.Ne, 'Lt': ast.Lt, 'Le': ast.Le, 'Gt': ast.Gt, 'Ge': ast.Ge}
SHAPES = ('opaque', 'literal', 'local', 'glob')
WIDTHS = {'quick': (2,), 'thorough': (2, 3, 4, 8)}


def props(unchecked, *, operator=False, fault=False):
    # C14: the operand shapes of the division / modulo lemmas include literals -- a constant divisor must fault exactly like its run-time twin
    sim = ['C01'] + (['C09'] if operator else []) + (['C05', 'C14'] if fault and not unchecked else []) + (['C15'] if unchecked else [])
    return {'SIM': tuple(sim), 'INV': ('C08',) + (('C15',) if unchecked else ()), 'NOBOT': ('C03',), 'SAFE': ('C04',),
            'NOERR': ('C10',)}


def variants(tier, n_operands):
    """(shapes tuple, keep, r_out)"""
    out = []
    for sh in itertools.product(SHAPES, repeat=n_operands):
        for keep in (False, True):
            out.append((sh, keep, 'r1'))
    base = ('opaque',) * n_operands
    for r in ('r0', 'r2'):
        for keep in (False, True):
            out.append((base, keep, r))
    if tier == 'thorough':
        for sh in itertools.product(SHAPES, repeat=n_operands):
            for r in ('r0', 'r2'):
                out.append((sh, True, r)); out.append((sh, False, r))
    return out


def operand(L, shape, name, t=DataType.INT):
    if shape in ('true', 'false'):
        return ast.BoolValue(shape == 'true', None)
    if shape == 'smallint':
        # an immediate the typechecker can hand to a cast: array lengths, 0 <= K <= max_signed
        return ast.IntValue(L.sym("K" + name, 0, (1 << (L.bits - 1)) - 1), None)
    return getattr(L, shape)(name, t)


def shapes_for(t):
    if t == 'I_nolit':
        return ('opaque', 'local', 'glob', 'smallint')
    if t == DataType.BOOL:
        return ('opaque', 'local', 'glob', 'true', 'false')
    return SHAPES


def variants_t(tier, types):
    """(shapes tuple, keep, r_out) for operands of the given types"""
    out = []
    for sh in itertools.product(*[shapes_for(t) for t in types]):
        for keep in (False, True):
            out.append((sh, keep, 'r1'))
    base = ('opaque',) * len(types)
    for r in ('r0', 'r2'):
        for keep in (False, True):
            out.append((base, keep, r))
    if tier == 'thorough':
        for sh in itertools.product(*[shapes_for(t) for t in types]):
            for r in ('r0', 'r2'):
                out.append((sh, True, r)); out.append((sh, False, r))
    return out


I, B, Y = DataType.INT, DataType.BOOL, DataType.BYTE

# family -> op -> (operand types, builder(operands) -> expression, fault?)
FAMILIES = {
    'binop': {op: ((I, I), (lambda c: (lambda a, b: c(None, a, b)))(cls), op in ('Div', 'Mod')) for op, cls in BINOPS.items()},
    'cmp': {**{op: ((I, I), (lambda c: (lambda a, b: c(None, a, b)))(cls), False) for op, cls in CMPOPS.items()},
            'EqBool': ((B, B), lambda a, b: ast.Eq(None, a, b), False),
            'NeBool': ((B, B), lambda a, b: ast.Ne(None, a, b), False)},
    'unop': {'Pos': ((I,), lambda a: ast.Pos(None, a), False),
             'Neg': ((I,), lambda a: ast.Neg(None, a), False),
             'Not': ((B,), lambda a: ast.Not(None, a), False),
             'NotNot': ((B,), lambda a: ast.Not(None, ast.Not(None, a)), False)},
    'cast': {'IntToByte': ((I,), lambda a: ast.IntToByte(a), False),
             'ByteToInt': ((Y,), lambda a: ast.ByteToInt(a), False),
             'BoolToByte': ((B,), lambda a: ast.BoolToByte(a), False),
             'BoolToInt': ((B,), lambda a: ast.ByteToInt(ast.BoolToByte(a)), False),
             'IntToBool': (('I_nolit',), lambda a: ast.IntToBool(a), False),
             'ByteToBool': ((Y,), lambda a: ast.IntToBool(ast.ByteToInt(a)), False),
             'IntToByteToInt': ((I,), lambda a: ast.ByteToInt(ast.IntToByte(a)), False),
             'IntToByteToBool': (('I_nolit',), lambda a: ast.IntToBool(ast.ByteToInt(ast.IntToByte(a))), False),
             'BoolToIntToBool': ((B,), lambda a: ast.IntToBool(ast.ByteToInt(ast.BoolToByte(a))), False)},
    'logic': {'And': ((B, B), lambda a, b: ast.And(None, a, b), False),
              'Or': ((B, B), lambda a, b: ast.Or(None, a, b), False),
              'NotAnd': ((B, B), lambda a, b: ast.Not(None, ast.And(None, a, b)), False),
              'AndOr': ((B, B, B), lambda a, b, c: ast.And(None, ast.Or(None, a, b), c), False),
              'OrAnd': ((B, B, B), lambda a, b, c: ast.Or(None, a, ast.And(None, b, c)), False),
              'AndCmp': ((I, I, B), lambda a, b, c: ast.And(None, ast.Lt(None, a, b), c), False),
              'OrNotCmp': ((I, I, B), lambda a, b, c: ast.Or(None, ast.Not(None, ast.Ge(None, a, b)), c), False),
              'AndIntToBool': (('I_nolit', B), lambda a, b: ast.And(None, ast.IntToBool(a), b), False)},
    'leaf': {'Int': ((I,), lambda a: a, False), 'Byte': ((Y,), lambda a: a, False), 'Bool': ((B,), lambda a: a, False)},
}
EXTRA_FUNCS = {
    'binop': ['hidc.codegen.generator.CodeGen.arith_op_reg_arg', 'hidc.codegen.generator.arith_map'],
    'cmp': ['hidc.codegen.generator.CodeGen.bool_expr_branch', 'hidc.codegen.generator.compare_map', 'hidc.codegen.generator.halt_inversion',
            'hidc.codegen.generator.CodeGen.goto', 'hidc.codegen.generator.CodeGen.is_goto'],
    'unop': ['hidc.codegen.generator.CodeGen.un_op_reg_arg', 'hidc.codegen.generator.CodeGen.bool_expr_branch'],
    'cast': ['hidc.codegen.asm.State.access_byte', 'hidc.codegen.asm.Indirect.access_byte', 'hidc.codegen.asm.IntLiteral.access_byte',
             'hidc.codegen.asm.Immediate.access_byte'],
    'logic': ['hidc.codegen.generator.CodeGen.bool_expr_branch', 'hidc.codegen.generator.halt_inversion', 'hidc.codegen.generator.CodeGen.goto',
              'hidc.codegen.generator.CodeGen.is_goto'],
    'leaf': [],
}


def run_family(family, op, w, unchecked, tier):
    res = []
    types, build, fault = FAMILIES[family][op]
    operator = family != 'leaf'
    vs = variants_t(tier, types)
    if len(types) == 3 and tier == 'quick':      # keep the quick tier small: all-opaque plus one varied operand at a time
        vs = [v for v in vs if sum(1 for x in v[0] if x != 'opaque') <= 1]
    work = [(sh, keep, r_out, ()) for sh, keep, r_out in vs]
    while work:
        sh, keep, r_out, dec = work.pop()
        fk = ('/fork=' + ''.join('T' if d else 'F' for d in dec)) if dec else ''
        L = Lemma(f'expr/{family}/{op}/w{w}/{"unchecked" if unchecked else "checked"}/{",".join(sh)}/keep={int(keep)}/{r_out}{fk}',
                  w, unchecked, decisions=dec)
        L.functions.update(GEN + EXTRA_FUNCS[family])
        try:
            args = [operand(L, s, n, I if t == 'I_nolit' else t) for s, n, t in zip(sh, 'abc', types)]
            e = build(*args)
            cov = [('exit', '<end>')] + ([('term', 'division_by_zero')] if fault and not unchecked else [])
            res += L.check_scalar_expr(e, r_out, keep, props(unchecked, operator=operator, fault=fault), cov)
            work += [(sh, keep, r_out, d) for d in L.pending_forks()]
        finally:
            L.close()
    return res


def concrete_expression_classes():
    """inventory by introspection of the real package (DESIGN Appendix E)"""
    import inspect
    from hidc import ast as A
    out = []
    for name in dir(A):
        c = getattr(A, name)
        if inspect.isclass(c) and issubclass(c, A.Expression) and not inspect.isabstract(c) and not getattr(c, '__abstractmethods__', None):
            out.append(c)
    return sorted(set(out), key=lambda c: c.__name__)


def representative(L, cls, flavor='abstract'):
    """an instance of the expression class whose sub-expressions are abstract children (so that anything they do is visible), or --
    flavor 'safe-operands' -- plain local variables, i.e. operands is_safe itself accepts (a composite of safe parts is where a
    too generous is_safe would show)"""
    from hidv.harness.vcg import SPAN
    from hidc.ast import ArrayType
    from hidc.codegen.symbols import AccessMode
    from hidc.lexer.tokens import Ident
    A = ast
    if flavor == 'safe-and-literal':
        # `<local> op <literal>`: a composite one of whose parts is a constant
        if cls in (A.Add, A.Sub, A.Mul, A.Div, A.Mod, A.Lt, A.Le, A.Gt, A.Ge, A.Eq, A.Ne): return cls(SPAN, L.local('a'), L.literal('k'))
        if cls is A.Speculation: return cls(SPAN, L.local('a'), L.literal('k'))
        return None
    if flavor == 'safe-operands':
        o = lambda n, t=I: L.local(n, t)
        if cls in (A.IntValue, A.ByteValue, A.BoolValue, A.StringValue, A.VariableLookup, A.FuncCall, A.ArrayLiteral, A.ArrayInitializer, A.StringToByteArray, A.Volatile):
            return None
        if cls is A.LengthLookup: return cls(L.array_var('v', I, 'local', AccessMode.RW), SPAN.end)
        if cls is A.ArrayLookup: return cls(L.array_var('v', I, 'local', AccessMode.RW), o('i'), SPAN.end)
    else:
        o = lambda n, t=I: L.opaque(n, t)
    if cls in (A.Add, A.Sub, A.Mul, A.Div, A.Mod): return cls(SPAN, o('a'), o('b'))
    if cls in (A.Lt, A.Le, A.Gt, A.Ge, A.Eq, A.Ne): return cls(SPAN, o('a'), o('b'))
    if cls in (A.And, A.Or): return cls(SPAN, o('a', B), o('b', B))
    if cls is A.Not: return cls(SPAN, o('a', B))
    if cls in (A.Pos, A.Neg): return cls(SPAN, o('a'))
    if cls is A.Speculation: return cls(SPAN, o('a'), o('b'))
    if cls is A.IntToByte: return cls(o('a'))
    if cls is A.ByteToInt: return cls(o('a', Y))
    if cls is A.IntToBool: return cls(o('a'))
    if cls is A.BoolToByte: return cls(o('a', B))
    if cls is A.StringToByteArray: return cls(L.string_operand('s', 'opaque'))
    if cls is A.LengthLookup: return cls(L.string_operand('s', 'opaque'), SPAN.end)
    if cls is A.ArrayLookup: return cls(L.array_var('v', I, 'local', AccessMode.RW), o('i'), SPAN.end)
    if cls is A.IntValue: return L.literal('k')
    if cls is A.ByteValue: return L.literal('k', Y)
    if cls is A.BoolValue: return A.BoolValue(True, SPAN)
    if cls is A.StringValue: return L.string_operand('s', 'literal')
    if cls is A.VariableLookup: return L.glob('g')
    if cls is A.ArrayLiteral: return A.ArrayLiteral((o('a'),), SPAN, ArrayType(I, False), True)
    if cls is A.ArrayInitializer: return A.ArrayInitializer(ArrayType(I, False), o('n'))
    if cls is A.Volatile: return cls(L.array_var('v', I, 'local', AccessMode.RW))
    if cls is A.FuncCall: return A.FuncCall(Ident('writeln'), (), SPAN, DataType.EMPTY)
    return None


def replay_safe(w, unchecked):
    """whole programs: a computed left operand combined with right operands of every shape is_safe may accept"""
    from hidv.sphinx import svm
    a, b, x, y = 3, 4, 17, 5
    exprs = [('(a + b) + x / y', (a + b) + x // y), ('(a * b) - x % y', (a * b) - x % y), ('(a + b) * (x - y)', (a + b) * (x - y)), ('(a - b) + (x * y)', (a - b) + x * y),
             ('(a + b) + v.length', a + b + 3), ('(a + b) + v[1]', a + b + 20), ('(a + b) + (-x)', a + b - x), ('(a * b) + (x is byte is int)', a * b + x),
             ('(a + b) + s.length', a + b + 2)]
    obs = []
    for text, want in exprs:
        src = 'empty @is_you(int a, int b, int x, int y) { int[] v = [10, 20, 30]; string s = "hi"; write(%s); }' % text
        try:
            res, vm = svm.run_hid(src, args=[str(a), str(b), str(x), str(y)], word_size=w, unchecked=unchecked)
            if res != 'win' or vm.out != str(want).encode():
                obs.append({'expression': text, 'arguments': [a, b, x, y], 'printed': vm.out.decode('latin1'), 'documented': str(want), 'unchecked': unchecked})
        except Exception as e:
            obs.append({'expression': text, 'raises': repr(e)})
    return {'reproduced': bool(obs), 'how': 'hidc-compiled programs on hidv.sphinx.svm', 'observed': obs[:3] or 'the sample programs print the documented values'}


def run_safe_contract(w, unchecked=False):
    """L(is_safe): for every expression class the real is_safe() accepts, the code of get_expr_value(r, e) writes only r: no child runs,
    no event, no store, every other named word unchanged.  (is_safe decides whether an already computed left operand may stay in a register.)"""
    import time as _t
    import z3
    from hidv import smt
    from hidc.codegen import asm as _asm
    from hidv.harness.lemma import FAILED as _F, DISCHARGED as _D, UNDECIDED as _U
    res = []
    PR = ('C01', 'C09', 'C14') + (('C15',) if unchecked else ())          # C14: partly constant operands
    never_generated = {'Is', 'Parameter', 'PrimitiveValue', 'TypeCast', 'Expression', 'Assignable', 'Operator', 'Binary', 'Unary', 'BooleanOp', 'LogicalOp', 'CompareOp',
                       'EqualityOp', 'ArithmeticOp', 'BinaryArithmeticOp', 'UnaryArithmeticOp'}
    for cls in concrete_expression_classes():
        if cls.__name__ in never_generated:
            continue
        for r_out, flavor in itertools.product(('r0', 'r1', 'r2'), ('abstract', 'safe-operands', 'safe-and-literal')):
            tagname = ('' if flavor == 'abstract' else flavor + '/') + ('unchecked/' if unchecked else '')
            L = Lemma(f'expr/is_safe/{cls.__name__}/{tagname}{r_out}/w{w}', w, unchecked, src=None)
            L.functions.update(['hidc.codegen.generator.CodeGen.is_safe', 'hidc.codegen.generator.CodeGen.get_expr_value', 'hidc.codegen.generator.CodeGen.eval_expr'])
            t0 = _t.time()
            try:
                e = representative(L, cls, flavor)
                if e is None and flavor != 'abstract':
                    continue
                if e is None:
                    L.add('SAFE-CONTRACT', _U, t0, ('C01',), {'message': f'no representative for expression class {cls.__name__} (new class? add a lemma)'})
                    res += L.results; continue
                safe = L.cg.is_safe(e)
                if not safe:
                    L.add('SAFE-CONTRACT', _D, t0, PR, {'formula': f'{cls.__name__}: not treated as safe (left operands are kept across it)'}, backend='harness')
                    res += L.results; continue
                out = L.guarded_emit(lambda: L.cg.get_expr_value(_asm.LabelRef(r_out), e))
                if out is None:
                    res += L.results; continue
                instrs, lines, val = out; L.lines = lines
                eng, leaves = L.run_engine(lines)
                problems = []
                E = L.entry.regs
                for l in leaves:
                    if l.kind != 'exit': problems.append(f'leaf {l.kind} {l.tgt}')
                    if l.st.trace: problems.append('evaluating it runs a child / emits an event')
                    if l.st.stores: problems.append('evaluating it stores to memory')
                    for r in E:
                        if r != r_out and not smt.prove(L.ctx.all_pre() + list(l.cond), l.st.regs[r] == E[r]).verdict == smt.PROVED:
                            problems.append(f'evaluating it changes {r}')
                det = {'formula': f'is_safe accepts {cls.__name__}: its code writes only {r_out} (no child, event, store; other named words unchanged)',
                       'message': '; '.join(sorted(set(problems)))}
                if problems:
                    det['replay'] = replay_safe(w, unchecked)
                L.add('SAFE-CONTRACT', _F if problems else _D, t0, PR, det)
            finally:
                L.close()
            res += L.results
    return res


def tasks(tier):
    out = []
    for w in WIDTHS[tier]:
        out.append(task(MOD, 'run_safe_contract', ('C01', 'C09', 'C10', 'C14'), label=f'expr/is_safe/w{w}', cost=5, w=w))
        out.append(task(MOD, 'run_safe_contract', ('C01', 'C09', 'C10', 'C15'), label=f'expr/is_safe/w{w}/u1', cost=5, w=w, unchecked=True))
    for w in WIDTHS[tier]:
        for unchecked in (False, True):
            for family, ops in FAMILIES.items():
                for op in ops:
                    out.append(task(MOD, 'run_family', ('C01', 'C03', 'C04', 'C05', 'C08', 'C09', 'C10', 'C15') + (('C14',) if op in ('Div', 'Mod') else ()),
                                    label=f'expr/{family}/{op}/w{w}/u{int(unchecked)}', cost=10 * len(ops[op][0]) * (w if w > 2 else 1),
                                    family=family, op=op, w=w, unchecked=unchecked, tier=tier))
    return out
