"""The trusted base and the unchecked assumptions, copied into every evidence file (DESIGN.md section 7)."""
import os, re

ISA = ('Sphinx ISA semantics as transcribed in contracts/isa.py (no emulator offline): little-endian words of w bytes; '
       'add/sub/mul/and/or/xor/asl/asr wrap at 8w bits; div/mod signed with FLOOR rounding (assumption DIV=floor); '
       'lb* zero-extend; h<cc> signed, h<cc>u unsigned; `j X` = Turing jump (taken iff falling through would reach a halt)')
ASSEMBLER = ('Assembler conventions: %argv/.arg binding, `Nw` = N*wordsize, .ascii escapes (\\\\ \\" \\\' \\n \\r \\xHH, printable ASCII '
             'verbatim), decimal immediates wrapped to the word')
PYTHON = ('CPython 3.12.1 executes the harness and the real CodeGen methods faithfully; the builtin axioms listed in '
          'hidv/pyvc/builtins.py; re greedy match = longest match for the lexer patterns')
SOLVERS = 'soundness of z3 5.1.0 / cvc5 1.0.3; exhaustive enumeration over finite domains is done by CPython on the real objects'
PAPER = ('paper arguments (not machine checked): structural induction assembling per-construct lemmas into statements about all '
         'programs; nesting induction for context/typing rules; LIFO-rank lemma for Tracker')
SVM = 'hidv/sphinx/svm.py (concrete VM, same assumed ISA) is used for replay only: a wrong svm can at worst turn a counterexample into "undecided"'

TARGET_LEVEL = {'C01', 'C02', 'C03', 'C04', 'C05', 'C08', 'C09', 'C13', 'C15', 'C16', 'C17', 'C18'}

EXTRACTION_DROPS = ('pyvc re-reads the function text from /repo on every run and interprets its own AST; dropped: decorators '
                    '(@Parser.routine, @dataclass, @property, @staticmethod are replaced by their modelled meaning), type '
                    'annotations, docstrings, comments.  sphinxsem consumes the bytes rendered by the real asm.lines()/'
                    'Directive.lines(); dropped: comment lines (Metadata) and indentation.')

EXTRA = {}


def for_property(prop):
    tb = [SOLVERS, PYTHON]
    if prop in TARGET_LEVEL:
        tb += [ISA, ASSEMBLER, SVM]
    tb.append(PAPER)
    return tb


def assumptions_for(prop):
    out = list(for_property(prop))
    out += EXTRA.get(prop, [])
    return out


def assumption_scan():
    """mechanical scan of /verif/contracts and /verif/hidv for assumption-like markers"""
    root = os.path.dirname(os.path.abspath(__file__))
    hits = []
    pat = re.compile(r'\b(ASSUME|TRUSTED|AXIOM|INLINED|BOUNDED-IN)\b[^\n]*')
    for base in (root, os.path.join(os.path.dirname(root), 'hidv')):
        for dp, _, fs in os.walk(base):
            for fn in sorted(fs):
                if not fn.endswith('.py') or fn == 'trusted.py':
                    continue
                p = os.path.join(dp, fn)
                for i, line in enumerate(open(p, encoding='utf-8'), 1):
                    m = pat.search(line)
                    if m and '#' in line:
                        hits.append(f'{os.path.relpath(p, os.path.dirname(root))}:{i}: {m.group(0).strip()[:160]}')
    return hits
