"""C12 (and the lexer part of C10): contracts on hidc/lexer.

  T(patterns)      language equality of every compiled pattern of readers.py with the documented literal syntax (automata, exact)
  T(tables)        escape table, keyword/symbol spellings, longest-symbol-first for every prefix pair (order independent of hashing)
  P(read_int_token) value = int(text, base of the alternative that matched), alternatives tried most specific first (pyvc)
  P(escapes)       every \\xHH (all 256 values, both hex cases) and every \\u{...} scalar value decodes to the documented bytes (enum on the real readers)
  P(Scanner.*, Marker.advance, lex)  cursor / span arithmetic (pyvc with z3 strings): a token's span is exactly the text consumed
  P(readers raise only LexerError)   pyvc with contracts on the Scanner primitives and axioms for int()/chr()/str.encode
"""
from __future__ import annotations
import time, itertools, ast as pyast
import z3
from hidv.oblig import task, Result, DISCHARGED, FAILED, UNDECIDED, BOUNDED_OK, BOUNDED_FAILED
from hidv.pyvc import core as V
from hidv.pyvc import regex as RX

MOD = 'contracts.py_lexer'


def M():
    import hidc.lexer as lx
    from hidc.lexer import readers, scanner, tokens
    from hidc.errors import LexerError
    return lx, readers, scanner, tokens, LexerError


def res(name, bad, t0, formula, fns, backend='enum', domain=None, how='real function evaluated by CPython'):
    det = {'formula': formula, 'functions': fns}
    if domain is not None: det['domain'] = domain
    if bad: det.update(model=bad[:6], replay={'reproduced': True, 'how': how, 'observed': bad[0]})
    return Result(name, FAILED if bad else DISCHARGED, backend, time.time() - t0, (), det)


# documented literal syntax (README "Types": `5`, `0xFF`, `1_000`; separators only between digits), written independently of readers.py
SPEC_PATTERNS = {
    'hex_literal': r'0x[\da-fA-F](?:_?[\da-fA-F])*',
    'oct_literal': r'0o[0-7](?:_?[0-7])*',
    'bin_literal': r'0b[01](?:_?[01])*',
    'dec_literal': r'\d(?:_?\d)*',
    'ident_pattern': r'(?:[a-z]|[A-Z]|_)(?:\w)*',
    'ignore': r'(?:\s)+|(?:\s)*//[^\n]*',
    'string_text': r'(?:[^"\\])+',
    'byte_escape': r'\\x[\da-fA-F][\da-fA-F]',
    'unicode_escape': r'\\u\{[\da-fA-F]+\}',
}


def ob_patterns():
    lx, readers, scanner, tokens, LE = M()
    out = []
    alpha = RX.representatives()
    for name, spec in SPEC_PATTERNS.items():
        t0 = time.time()
        pat = getattr(readers, name, None)
        fn = [f'hidc.lexer.readers.{name}']
        if pat is None:
            out.append(Result(f'C12/pattern/{name}', UNDECIDED, 'automata', 0.0, (), {'message': 'pattern no longer exists under this name', 'functions': fn})); continue
        try:
            eq, w = RX.equivalent(pat.pattern, spec, alpha)
        except ValueError as e:
            out.append(Result(f'C12/pattern/{name}', UNDECIDED, 'automata', time.time() - t0, (), {'message': str(e), 'functions': fn})); continue
        bad = []
        if not eq:
            m = pat.fullmatch(w)
            bad.append({'text': w, 'accepted_by_code': m is not None, 'accepted_by_documented_syntax': m is None})
        if pat.flags & ~32:       # re.UNICODE only
            bad.append({'flags': pat.flags})
        out.append(res(f'C12/pattern/{name}', bad, t0, f'L({pat.pattern!r}) = documented syntax {spec!r} (DFA equivalence over the class alphabet)', fn, 'automata',
                       how='re.fullmatch of the real compiled pattern on the distinguishing string'))
    return out


def ob_greedy_is_longest(maxlen=4):
    """BOUNDED-IN: CPython's backtracking match returns the longest match for these patterns: all strings up to length maxlen over one representative per character class"""
    lx, readers, scanner, tokens, LE = M()
    t0 = time.time(); bad = []; n = 0
    alpha = [c for c in '0xob1_9aFgZ /\\"\'{}u\n\t' ] + ['\u0663', '\u00e9', '\u2003']
    for name in SPEC_PATTERNS:
        pat = getattr(readers, name)
        dfa = RX.DFA(pat.pattern, alpha)
        for L_ in range(0, maxlen + 1):
            for tup in itertools.product(alpha, repeat=L_):
                s = ''.join(tup); n += 1
                m = pat.match(s)
                got = m.end() if m else None
                want = dfa.longest_prefix(s)
                if got != want:
                    bad.append({'pattern': name, 'text': s, 're.match end': got, 'longest prefix in the language': want}); break
            if bad: break
        if len(bad) > 3: break
    det = {'bound': f'all strings of length <= {maxlen} over {len(alpha)} class representatives', 'formula': 're.match(...).end() = longest prefix in L(pattern)', 'count': n,
           'functions': ['hidc.lexer.scanner.Scanner.match']}
    if bad: det.update(model=bad[:3], replay={'reproduced': True, 'how': 'real re.match', 'observed': bad[0]})
    return [Result('C12/pattern/greedy-is-longest', BOUNDED_FAILED if bad else BOUNDED_OK, 'bounded:enum', time.time() - t0, (), det)]


DOC_SYMBOLS = ['+', '-', '*', '/', '%', '==', '!=', '<', '>', '<=', '>=', '??', '+=', '-=', '*=', '/=', '%=', '=', ';', ',', '.', '(', ')', '{', '}', '[', ']']
DOC_KEYWORDS = ['or', 'and', 'not', 'is', 'break', 'continue', 'return', 'const', 'if', 'else', 'while', 'for', 'try', 'undo', 'stop', 'preempt',
                'int', 'bool', 'byte', 'string', 'empty', 'true', 'false']
DOC_ESCAPES = {'a': '\a', 'b': '\b', 'f': '\f', 'n': '\n', 'r': '\r', 't': '\t', '0': '\0', "'": "'", '"': '"', '\\': '\\'}


def ob_tables():
    lx, readers, scanner, tokens, LE = M()
    out = []
    t0 = time.time(); bad = []
    syms = [str(s) for s in readers.symbol_tokens]
    if sorted(syms) != sorted(DOC_SYMBOLS): bad.append({'symbols': sorted(syms), 'documented': sorted(DOC_SYMBOLS)})
    if sorted(readers.keyword_tokens) != sorted(DOC_KEYWORDS): bad.append({'keywords': sorted(readers.keyword_tokens), 'documented': sorted(DOC_KEYWORDS)})
    for k, v in readers.keyword_tokens.items():
        if str(v) != k: bad.append({'keyword': k, 'maps_to': str(v)})
    for a, b in itertools.permutations(syms, 2):
        if b.startswith(a) and a != b and syms.index(b) > syms.index(a):
            bad.append({'problem': 'a symbol is tried before a longer symbol it is a prefix of', 'short': a, 'long': b})
    if len(set(syms)) != len(syms): bad.append({'problem': 'duplicate symbol'})
    out.append(res('C12/tables/keywords-and-symbols', bad, t0, 'spellings = documented; for every pair with one a proper prefix of the other the longer is tried first '
                   '(holds for every tie order: independent of hash seeds)', ['hidc.lexer.readers.symbol_tokens', 'hidc.lexer.readers.keyword_tokens', 'hidc.lexer.tokens.enum_tokens'],
                   domain=len(syms) ** 2))
    t0 = time.time(); bad = []
    if dict(readers.escape_codes) != DOC_ESCAPES: bad.append({'escape_codes': dict(readers.escape_codes), 'documented': DOC_ESCAPES})
    out.append(res('C12/tables/escape-codes', bad, t0, 'escape table = \\a \\b \\f \\n \\r \\t \\0 \\\' \\" \\\\', ['hidc.lexer.readers.escape_codes'], domain=len(DOC_ESCAPES)))
    # reader order in lex(): a symbol is tried before an identifier (so `!=` is never the start of a defeat identifier), literals after identifiers
    t0 = time.time(); bad = []
    f, node = V.get_function('lex', lx)
    names = []
    for n in pyast.walk(node):
        if isinstance(n, pyast.Assign) and isinstance(n.targets[0], pyast.Name) and n.targets[0].id == 'tok_readers' and isinstance(n.value, pyast.List):
            names = [x.attr for x in n.value.elts if isinstance(x, pyast.Attribute)]
    if names[:2] != ['read_symbol_token', 'read_ident_or_keyword_token'] or set(names) != {'read_symbol_token', 'read_ident_or_keyword_token', 'read_int_token',
                                                                                           'read_string_token', 'read_char_token'}:
        bad.append({'reader_order': names})
    out.append(res('C12/lex/reader-order', bad, t0, 'symbols are tried first, then identifiers/keywords, then the literal readers (all five present)', ['hidc.lexer.lex'], 'pyvc-syntactic'))
    return out


def scan_of(text):
    lx, readers, scanner, tokens, LE = M()
    return scanner.Scanner(scanner.SourceCode.from_string(text))


def ob_escapes():
    lx, readers, scanner, tokens, LE = M()
    out = []
    t0 = time.time(); bad = []
    hexd = '0123456789abcdefABCDEF'
    for a in hexd:
        for b in hexd:
            want = bytes([int(a + b, 16)])
            for mk, rd, nm in ((lambda s: f'"\\x{s}"', readers.read_string_token, 'string'), (lambda s: f"'\\x{s}'", readers.read_char_token, 'char')):
                sc = scan_of(mk(a + b))
                try:
                    tok = rd(sc)
                    got = tok.data if nm == 'string' else bytes([tok.data])
                except Exception as e:
                    got = repr(e)
                if got != want or sc.col != len(mk(a + b)): bad.append({'literal': mk(a + b), 'value': repr(got), 'documented': repr(want), 'col': sc.col})
    for k, v in DOC_ESCAPES.items():
        for mk, rd, nm in ((lambda s: f'"\\{s}"', readers.read_string_token, 'string'), (lambda s: f"'\\{s}'", readers.read_char_token, 'char')):
            sc = scan_of(mk(k))
            try:
                tok = rd(sc); got = tok.data if nm == 'string' else bytes([tok.data])
            except Exception as e:
                got = repr(e)
            if got != v.encode('utf-8'): bad.append({'literal': mk(k), 'value': repr(got), 'documented': repr(v.encode())})
    out.append(res('C12/escapes/byte-and-simple-escapes', bad, t0, 'every \\xHH (22x22 spellings) and every simple escape denotes the documented byte, in strings and chars; the whole literal is consumed',
                   ['hidc.lexer.readers.read_byte_escape', 'hidc.lexer.readers.read_char_escape', 'hidc.lexer.readers.read_escape_bytes', 'hidc.lexer.readers.read_string_token',
                    'hidc.lexer.readers.read_char_token'], domain=2 * (484 + len(DOC_ESCAPES))))
    # unicode escapes: all scalar values
    t0 = time.time(); bad = []; n = 0
    step = 1
    for cp in itertools.chain(range(0, 0x110000, step)):
        n += 1
        lit = '"\\u{%X}"' % cp
        sc = scan_of(lit)
        try:
            tok = readers.read_string_token(sc); got = tok.data; err = None
        except LE as e:
            got = None; err = str(e)
        except Exception as e:
            got = None; err = 'ESCAPES: ' + repr(e)
        if 0xD800 <= cp <= 0xDFFF:
            if got is not None or (err or '').startswith('ESCAPES'): bad.append({'literal': lit, 'problem': 'surrogate must be a LexerError', 'got': repr(got), 'err': err})
        elif got != chr(cp).encode('utf-8'):
            bad.append({'literal': lit, 'value': repr(got), 'documented': repr(chr(cp).encode('utf-8')), 'err': err})
        if len(bad) > 5: break
    for lit in ('"\\u{110000}"', '"\\u{FFFFFFFF}"', '"\\u{FFFFFFFFFFFFFFFFFFFFFFFF}"', "'\\u{7FFFFFFFFFFF}'"):
        sc = scan_of(lit)
        try:
            (readers.read_string_token if lit[0] == '"' else readers.read_char_token)(sc); bad.append({'literal': lit, 'problem': 'accepted'})
        except LE:
            pass
        except Exception as e:
            bad.append({'literal': lit, 'problem': f'escapes with {type(e).__name__} instead of a LexerError', 'error': str(e)})
    out.append(res('C12/escapes/unicode-scalar-values', bad, t0, 'forall scalar values: "\\u{H}" denotes the UTF-8 bytes of U+H; surrogates and values beyond U+10FFFF are LexerErrors',
                   ['hidc.lexer.readers.read_char_escape', 'hidc.lexer.readers.read_escape_bytes'], domain=n + 4))
    # non-ASCII text is UTF-8
    t0 = time.time(); bad = []
    for cp in list(range(0x80, 0x800, 7)) + [0x20AC, 0x1F30E, 0x10FFFF]:
        sc = scan_of('"a%sb"' % chr(cp))
        tok = readers.read_string_token(sc)
        if tok.data != ('a%sb' % chr(cp)).encode('utf-8'): bad.append({'cp': hex(cp), 'value': repr(tok.data)})
    out.append(res('C12/strings/utf8-text', bad, t0, 'raw non-ASCII text in a string literal is its UTF-8 encoding', ['hidc.lexer.readers.read_string_token'], domain=260))
    # raw characters in character literals: a character literal denotes one byte -- every ASCII character (except the quote, the backslash and a
    # line break) is its own byte, a character whose UTF-8 encoding is longer than one byte is a LexerError (README: byte-sized data type)
    t0 = time.time(); bad = []; n = 0
    for cp in list(range(0x20, 0x7F)) + list(range(0x80, 0x100)) + list(range(0x100, 0x800, 13)) + [0x20AC, 0x1F30E, 0x10FFFF]:
        ch = chr(cp)
        if ch in "'\\": continue
        n += 1
        sc = scan_of("'%s'" % ch)
        try:
            tok = readers.read_char_token(sc); got = tok.data; err = None
        except LE as e:
            got = None; err = str(e)
        except Exception as e:
            got = None; err = 'ESCAPES: ' + repr(e)
        if cp < 0x80:
            if got != cp: bad.append({'literal': "'%s'" % ch, 'value': got, 'documented': cp, 'err': err})
        elif got is not None or (err or '').startswith('ESCAPES'):
            bad.append({'literal': "'%s' (U+%04X)" % (ch, cp), 'value': got, 'documented': 'LexerError: not a single byte', 'err': err})
        if len(bad) > 5: break
    out.append(res('C12/chars/raw-characters', bad, t0, 'a raw character in a character literal: ASCII -> its byte; longer than one UTF-8 byte -> LexerError',
                   ['hidc.lexer.readers.read_char_token'], domain=n))
    return out


def ob_read_int():
    """pyvc: alternatives most specific first, value = int(matched text, base of that alternative)"""
    lx, readers, scanner, tokens, LE = M()
    t0 = time.time()
    f, node = V.get_function('read_int_token', readers)
    bad = []; npaths = 0
    want_order = [(readers.hex_literal, 16), (readers.oct_literal, 8), (readers.bin_literal, 2), (readers.dec_literal, 10)]

    def c_int(it, x=0, *a):
        if isinstance(x, V.Sym):
            return V.Sym('intval', text=x, base=a[0] if a else 10)
        return int(x, *a)

    def run(it):
        asked = []
        def match(pat):
            asked.append(pat)
            if V.P().choose(2) == 0: return None
            return V.Sym('text', pattern=pat)
        scan = V.Sym('scan', match=match)
        return it.call_function(f, node, (scan,), {}), asked
    outside = None
    try:
        paths = list(V.explore(run, interp_factory=lambda: V.Interp(contracts={int: c_int})))
    except Exception as e:          # the function left the interpretable subset (e.g. after a refactoring): undecided here, the value contract below still decides
        paths = []; outside = f'{type(e).__name__}: {e}'
    for pr in paths:
        npaths += 1
        if pr.outcome != 'return':
            bad.append({'outcome': pr.outcome, 'value': repr(pr.value)}); continue
        tok, asked = pr.value
        if [p for p in asked] != [p for p, _ in want_order][:len(asked)]:
            bad.append({'problem': 'alternatives are not tried in the order hex, oct, bin, dec', 'asked': [p.pattern for p in asked]})
        if tok is None:
            if len(asked) != 4: bad.append({'problem': 'gives up before trying all four alternatives'})
            continue
        pat = tok.data.text.pattern
        base = dict((id(p), b) for p, b in want_order)[id(pat)]
        if asked[-1] is not pat or tok.data.base != base or not isinstance(tok, tokens.IntToken):
            bad.append({'pattern': pat.pattern, 'converted_with_base': tok.data.base, 'documented_base': base})
    det = {'formula': 'read_int_token tries hex, oct, bin, dec in this order and returns IntToken(int(text matched, base of that alternative))', 'paths': npaths,
           'functions': ['hidc.lexer.readers.read_int_token']}
    if bad: det.update(model=bad[:4], replay=replay_ints())
    if outside:
        det['message'] = 'read_int_token is outside the interpretable subset: ' + outside
    out = [Result('C12/read_int_token/base-per-alternative', UNDECIDED if outside else (FAILED if bad else DISCHARGED), 'pyvc', time.time() - t0, (), det)]
    # value contract by enumeration: every string up to length 5 over the literal alphabet -- the longest prefix that is a literal of the documented
    # grammar (most specific alternative first) is consumed and denotes its documented value
    import itertools as _it, re as _re
    t0 = time.time(); bad = []; n = 0
    ref = [(_re.compile(r'0x(?:[0-9a-fA-F]_?)*[0-9a-fA-F]'), 16, 2), (_re.compile(r'0o(?:[0-7]_?)*[0-7]'), 8, 2), (_re.compile(r'0b(?:[01]_?)*[01]'), 2, 2),
           (_re.compile(r'(?:[0-9]_?)*[0-9]'), 10, 0)]
    def ref_value(text):
        for pat, base, skip in ref:
            m = pat.match(text)
            if m:
                digits = m.group()[skip:].replace('_', '')
                v = 0
                for ch in digits: v = v * base + '0123456789abcdef'.index(ch.lower())
                return v, m.end()
        return None, 0
    alphabet = '0179afAxob_'
    for L in range(1, 6):
        for tup in _it.product(alphabet, repeat=L):
            text = ''.join(tup); n += 1
            want, end = ref_value(text)
            sc = scan_of(text + ' ')
            try:
                tok = readers.read_int_token(sc)
                got = (None if tok is None else tok.data, sc.col if tok is not None else 0)
            except Exception as e:
                got = (repr(e), None)
            if got != (want, end):
                bad.append({'text': text, 'value_and_length': got, 'documented': (want, end)})
                if len(bad) > 5: break
        if len(bad) > 5: break
    d2 = {'formula': 'for every string over the literal alphabet: the literal read is the longest prefix of the most specific base alternative and denotes its documented value',
          'domain': n, 'bound': 'strings up to length 5 over 0 1 7 9 a f A x o b _', 'functions': ['hidc.lexer.readers.read_int_token']}
    if bad: d2.update(model=bad[:5], replay={'reproduced': True, 'how': 'real read_int_token on the text', 'observed': bad[0]})
    out.append(Result('C12/read_int_token/values-of-all-short-literals', BOUNDED_FAILED if bad else BOUNDED_OK, 'bounded:enum', time.time() - t0, (), d2))
    # AXIOM int(text, base): Python's int() accepts exactly the documented digits/separators of that base with the 0x/0o/0b prefix: enum over samples of each pattern's language
    t0 = time.time(); bad = []
    samples = {'0x1F': 31, '0xdead_BEEF': 0xdeadbeef, '0o17': 15, '0o1_7': 15, '0b101': 5, '0b1_0': 2, '1_000': 1000, '007': 7, '0': 0, '0x0': 0, '0b0': 0,
               '9_9': 99, '0xA_b': 171, '18446744073709551616': 2 ** 64}
    def rd(sc):
        try:
            return readers.read_int_token(sc)
        except Exception as e:
            return Raised(repr(e))
    class Raised:
        def __init__(self, why): self.data = why
    for s, v in samples.items():
        sc = scan_of(s + ' ')
        tok = rd(sc)
        if tok is None or tok.data != v or sc.col != len(s): bad.append({'literal': s, 'value': getattr(tok, 'data', None), 'documented': v, 'col': sc.col})
    for s, (v, c) in {'0x': (0, 1), '0b2': (0, 1), '0o8': (0, 1), '1__0': (1, 1), '1_': (1, 1), '0x_1': (0, 1), '08': (8, 2)}.items():
        sc = scan_of(s + ' ')
        tok = rd(sc)
        if tok is None or tok.data != v or sc.col != c: bad.append({'literal': s, 'value': getattr(tok, 'data', None), 'consumed': sc.col, 'documented': f'{v} consuming {c}'})
    out.append(res('C12/read_int_token/sample-values', bad, t0, 'documented values of sample literals in every base incl. separators, and where malformed literals stop', ['hidc.lexer.readers.read_int_token'],
                   domain=len(samples) + 7))
    return out


def replay_ints():
    lx, readers, scanner, tokens, LE = M()
    obs = []
    for s, v in {'0x1F': 31, '0o17': 15, '0b101': 5, '1_000': 1000}.items():
        tok = readers.read_int_token(scan_of(s))
        if tok is None or tok.data != v: obs.append({'literal': s, 'value': getattr(tok, 'data', None), 'documented': v})
    return {'reproduced': bool(obs), 'how': 'real read_int_token on sample literals', 'observed': obs or 'samples agree'}


def ob_scanner():
    """cursor arithmetic of Scanner.exact / read / linebreak and Marker.advance with a symbolic line and column"""
    lx, readers, scanner, tokens, LE = M()
    out = []
    line = z3.String('line'); col = z3.Int('col')

    def c_len(it, x):
        if isinstance(x, V.ZStr): return x.length()
        return len(x)

    def mk_scan():
        src = V.Sym('source')
        object.__setattr__(src, '__getitem__', None)
        class Src:
            def __getitem__(self, i): return V.ZStr(line)
            def __len__(self): return 3
        return V.Sym('scan', source=Src(), line=0, col=V.ZInt(col))
    pre = [col >= 0, col <= z3.Length(line)]
    for meth, arg in (('exact', 'abc'), ('exact', '@'), ('read', 1), ('read', 3)):
        t0 = time.time(); bad = []; np_ = 0
        f, node = V.get_function(f'Scanner.{meth}', scanner)
        def run(it, arg=arg):
            sc = mk_scan()
            r = it.call_function(f, node, (sc, arg), {})
            return r, sc
        for pr in V.explore(run, assumptions=pre, interp_factory=lambda: V.Interp(contracts={len: c_len})):
            np_ += 1
            if pr.outcome != 'return': bad.append({'outcome': repr(pr.value)}); continue
            r, sc = pr.value
            newcol = sc.col.t if isinstance(sc.col, V.ZInt) else z3.IntVal(sc.col)
            n = len(arg) if meth == 'exact' else arg
            piece = z3.SubString(line, col, n)
            s = z3.Solver(); s.add(*pr.cond)
            if meth == 'exact':
                if r is True: goal = z3.And(newcol == col + n, piece == z3.StringVal(arg))
                elif r is False: goal = z3.And(newcol == col, piece != z3.StringVal(arg))
                else: bad.append({'returns': repr(r)}); continue
            else:
                if r is None: goal = z3.And(newcol == col, z3.Length(line) - col < n)
                elif isinstance(r, V.ZStr): goal = z3.And(newcol == col + n, r.t == piece, z3.Length(piece) == n)
                else: bad.append({'returns': repr(r)}); continue
            s.add(z3.Not(goal))
            if s.check() != z3.unsat: bad.append({'method': meth, 'arg': arg, 'model': str(s.model()) if s.check() == z3.sat else 'unknown'})
        out.append(res(f'C12/scanner/{meth}({arg!r})', bad, t0,
                       'exact(s): advances by len(s) and returns True iff the text at the cursor is s, else leaves the cursor; read(n): returns exactly the next n characters '
                       'and advances by n, or None without moving when fewer remain', [f'hidc.lexer.scanner.Scanner.{meth}'], 'pyvc+z3(strings)'))
    # Marker.advance: span = [previous cursor, scanner cursor), marker moves to the scanner cursor
    t0 = time.time(); bad = []
    f, node = V.get_function('Marker.advance', scanner)
    old = scanner.Cursor(1, 2); new = scanner.Cursor(1, 7)
    def run(it):
        mk = V.Sym('marker', cursor=old, scan=V.Sym('scan', cursor=new))
        return it.call_function(f, node, (mk,), {}), mk
    for pr in V.explore(run):
        sp, mk = pr.value
        if not (isinstance(sp, scanner.Span) and sp.start is old and sp.end is new and mk.cursor is new): bad.append({'span': repr(sp), 'marker': repr(mk.cursor)})
    out.append(res('C12/scanner/Marker.advance', bad, t0, 'advance() returns Span(previous marker cursor, current scanner cursor) and moves the marker there', ['hidc.lexer.scanner.Marker.advance'], 'pyvc'))
    # lex: per token: skip layout, stop at end, mark, first reader that answers, yield Lexeme(token, marker.advance())
    t0 = time.time(); bad = []; np_ = 0
    f, node = V.get_function('lex', lx)
    def run(it):
        log = []
        def reader(name):
            def r(scan):
                log.append(('reader', name))
                return None if V.P().choose(2) == 0 else V.Sym('tok:' + name)
            return r
        class Mk:
            def __init__(self): self.cursor = 'c0'
            def advance(self): log.append(('advance',)); return ('span', len(log))
        class Scan:
            n = 0
            def mark(self): log.append(('mark',)); return Mk()
            def __bool__(self):
                log.append(('more?',)); Scan.n += 1
                return Scan.n <= 2 and V.P().choose(2) == 0
            cursor = 'cur'
        Scan.n = 0
        fake_readers = V.Sym('readers', skip_whitespace=lambda s: log.append(('skip',)), **{n: reader(n) for n in
                             ('read_symbol_token', 'read_ident_or_keyword_token', 'read_int_token', 'read_string_token', 'read_char_token')})
        g = dict(f.__globals__); g['readers'] = fake_readers; g['Scanner'] = lambda source: Scan()
        it.loop_bound = 3
        return it.call_function(types_function(f, g), node, ('src',), {}), log
    import types as _types
    def types_function(fn, g):
        return _types.FunctionType(fn.__code__, g, fn.__name__, fn.__defaults__, fn.__closure__)
    for pr in V.explore(run, interp_factory=lambda: V.Interp(loop_bound=3)):
        np_ += 1
        if pr.outcome == 'raise' and not isinstance(pr.value, LE): bad.append({'raises': repr(pr.value)}); continue
        ys = [e[1] for e in pr.trace if e[0] == 'yield']
        log = pr.value[1] if pr.outcome == 'return' else None
        if log is None: continue
        # between two yields: skip, more?, mark, readers in order until one answers, advance
        i = 0
        seq = [x[0] for x in log]
        if seq[:1] == ['mark']: seq = seq[1:]        # the marker for the end-of-file cursor, created before the loop
        toks = 0
        while i < len(seq):
            if seq[i:i + 2] != ['skip', 'more?']: bad.append({'problem': 'a token is read without skipping layout / testing for the end first', 'log': seq[:12]}); break
            i += 2
            if i >= len(seq): break
            if seq[i] != 'mark': bad.append({'problem': 'the token start is not marked after the layout was skipped', 'log': seq[:12]}); break
            i += 1
            k = 0
            while i < len(seq) and seq[i] == 'reader': i += 1; k += 1
            if i < len(seq) and seq[i] == 'advance': i += 1; toks += 1
            else: break
        if len(ys) != toks and pr.outcome == 'return': bad.append({'problem': 'number of lexemes yielded differs from the number of tokens read', 'yields': len(ys), 'tokens': toks})
        for y in ys:
            if not (isinstance(y, lx.Lexeme) and isinstance(y.span, tuple) and y.span[0] == 'span'): bad.append({'problem': 'lexeme span is not marker.advance()', 'lexeme': repr(y)})
    out.append(res('C12/lex/span-protocol', bad, t0, 'for every token: layout is skipped, then the start is marked, the readers are tried in order, and the lexeme carries '
                   'marker.advance() = [start after layout, cursor after the reader); only LexerError escapes', ['hidc.lexer.lex'], 'pyvc'))
    return out


def ob_readers_raise_only_lexer_errors():
    """C10 (lexer part): path exploration of the readers with contracts on the Scanner primitives; AXIOMs for int(), chr(), str.encode"""
    lx, readers, scanner, tokens, LE = M()
    out = []

    class FakeScan:
        """contract of the Scanner primitives: arbitrary answers"""
        cursor = scanner.Cursor(0, 0)
        def exact(self, s): return V.P().choose(2) == 0
        def match(self, pat):
            if V.P().choose(2) == 1: return None
            return V.Sym('text', pattern=pat, encode=self._encode)
        def read(self, n):
            if V.P().choose(2) == 1: return None
            return V.Sym('chars', encode=self._encode, in_escape_codes=None)
        def _encode(self, enc): return V.Sym('bytes')
        def linebreak(self): return V.P().choose(2) == 0
        def mark(self): return V.Sym('marker')
        def __bool__(self): return V.P().choose(2) == 0

    def c_int(it, x=0, *a):
        # AXIOM int(text, base): text comes from a pattern of digits; CPython raises ValueError when a non power-of-two base literal exceeds the digit limit (4300)
        if isinstance(x, V.Sym):
            base = a[0] if a else 10
            if base == 10 and V.P().choose(2) == 1:
                raise ValueError('Exceeds the limit (4300 digits) for integer string conversion')
            return V.Sym('int', base=base)
        return int(x, *a)

    def c_chr(it, x):
        # AXIOM chr(i): ValueError outside range(0x110000); OverflowError beyond the C int range
        if isinstance(x, V.Sym):
            k = V.P().choose(3)
            if k == 1: raise ValueError('chr() arg not in range(0x110000)')
            if k == 2: raise OverflowError('Python int too large to convert to C int')
            def enc(e):
                if V.P().choose(2) == 1: raise UnicodeEncodeError('utf-8', '\ud800', 0, 1, 'surrogates not allowed')
                return V.Sym('bytes')
            return V.Sym('char', encode=enc)
        return chr(x)

    def c_bytes(it, x=b'', *a):
        if isinstance(x, V.Sym) or (isinstance(x, list) and any(isinstance(y, V.Sym) for y in x)): return V.Sym('bytes')
        return bytes(x, *a)

    def c_len(it, x):
        if isinstance(x, V.Sym): return 1 if V.P().choose(2) == 0 else 2
        return len(x)
    names = ['skip_whitespace', 'read_byte_escape', 'read_char_escape', 'read_escape_bytes', 'read_char_token', 'read_string_token', 'read_int_token',
             'read_ident_or_keyword_token', 'read_symbol_token']
    for nm in names:
        t0 = time.time(); bad = []; np_ = 0
        f, node = V.get_function(nm, readers)
        args = (FakeScan(),) + (('utf-8',) if nm == 'read_escape_bytes' else ())

        class EscCodes(dict):
            pass
        def run(it, f=f, node=node, args=args):
            return it.call_function(f, node, args, {})
        try:
            paths = V.explore(run, interp_factory=lambda: V.Interp(contracts={int: c_int, chr: c_chr, bytes: c_bytes, len: c_len},
                                                                    inline=[getattr(readers, n) for n in names], loop_bound=2), max_paths=200000)
        except V.OutsideSubset as e:
            out.append(Result(f'C10/lexer/{nm}/raises-only-LexerError', UNDECIDED, 'pyvc', time.time() - t0, (), {'message': f'outside subset: {e}',
                              'functions': [f'hidc.lexer.readers.{nm}']})); continue
        kinds = {}
        for pr in paths:
            np_ += 1
            if pr.outcome == 'raise' and not isinstance(pr.value, LE):
                k = type(pr.value).__name__
                kinds.setdefault(k, str(pr.value))
        for k, v in kinds.items():
            bad.append({'escapes_with': k, 'message': v})
        det = {'formula': f'{nm}: for every answer of the Scanner primitives (and every outcome the builtin axioms allow) the reader returns or raises LexerError', 'paths': np_,
               'functions': [f'hidc.lexer.readers.{nm}']}
        if bad: det.update(model=bad, replay=replay_lexer_totality())
        out.append(Result(f'C10/lexer/{nm}/raises-only-LexerError', FAILED if bad else DISCHARGED, 'pyvc', time.time() - t0, (), det))
    return out


def replay_lexer_totality():
    from hidc.lexer import lex, SourceCode
    from hidc.errors import CompilerError
    obs = []
    for text in ('"\\u{FFFFFFFFFFFFFFFFFFFFFFFF}"', '1' * 5000, "'\\u{FFFFFFFFFFFF}'", '0x' + 'F' * 5000):
        try:
            list(lex(SourceCode.from_string(text)))
        except CompilerError:
            pass
        except Exception as e:
            obs.append({'source': text[:40] + ('...' if len(text) > 40 else ''), 'escapes_with': type(e).__name__, 'message': str(e)[:100]})
    return {'reproduced': bool(obs), 'how': 'hidc.lexer.lex on witness texts', 'observed': obs or 'all witness texts give LexerError or tokens'}


def ob_source_lines():
    """SourceCode: a line ends at a line feed and nowhere else (form feeds, NEL, U+2028 ... are ordinary characters of comments and strings);
    enum over all strings up to length 4 over an alphabet containing every character Python's str.splitlines() would split at"""
    lx, readers, scanner, tokens, LE = M()
    import tempfile, os
    t0 = time.time(); bad = []; n = 0
    alpha = ['a', '"', '/', '\n', '\r', '\x0b', '\x0c', '\x1c', '\x1d', '\x1e', '\x85', ' ', ' ']
    for L_ in range(0, 5):
        for tup in itertools.product(alpha, repeat=L_):
            s = ''.join(tup); n += 1
            got = list(scanner.SourceCode.from_string(s).lines)
            if got != s.split('\n'):
                bad.append({'text': repr(s), 'lines': repr(got), 'documented': repr(s.split('\n'))})
                break
        if bad: break
    # from_file: text mode = universal newlines (\r\n and \r are line feeds), a final line feed does not start another line
    fd, path = tempfile.mkstemp(suffix='.hid')
    os.close(fd)
    try:
        for tup in itertools.product(alpha, repeat=3):
            s = 'x' + ''.join(tup); n += 1
            with open(path, 'w', encoding='utf-8', newline='') as f: f.write(s)
            got = list(scanner.SourceCode.from_file(path).lines)
            u = s.replace('\r\n', '\n').replace('\r', '\n')
            want = u.split('\n')
            if u.endswith('\n'): want = want[:-1]
            if got != want:
                bad.append({'file_text': repr(s), 'lines': repr(got), 'documented': repr(want)}); break
    finally:
        os.unlink(path)
    return [res('C12/source/lines-end-at-line-feeds-only', bad, t0, 'SourceCode.from_string(s).lines == s.split("\\n"); from_file splits at line feeds (universal newlines) only',
                ['hidc.lexer.scanner.SourceCode.from_string', 'hidc.lexer.scanner.SourceCode.from_file'], domain=n)]


def ob_layout_bounded():
    """BOUNDED-IN: layout independence -- token sequences rendered with different separators lex to the same tokens (bounded stand-in)"""
    import random
    from hidc.lexer import lex, SourceCode
    t0 = time.time()
    rnd = random.Random(int(__import__('os').environ.get('HIDV_SEED', '0')))
    toks = ['x', '@y', '!z', '12', '0x1F', '1_0', '"s"', "'c'", '+', '-', '==', '=', '<=', '<', '??', '(', ')', '[', ']', '{', '}', ';', ',', '.', 'if', 'int', 'true', 'not', 'is', '+=', '!=', '/', '%']
    seps = [' ', '  ', '\n', '\t', ' // comment\n', '\n\n  ', ' //\n']
    bad = []; n = 0
    def need_sep(a, b):
        return True
    for _ in range(400):
        seq = [rnd.choice(toks) for _ in range(rnd.randint(1, 8))]
        ref = None
        for variant in range(4):
            text = ''
            for t_ in seq:
                text += t_ + rnd.choice(seps)
            try:
                got = [l.token for l in lex(SourceCode.from_string(text))]
            except Exception as e:
                got = repr(e)
            n += 1
            if ref is None: ref = got
            elif got != ref: bad.append({'tokens': seq, 'text': text, 'lexed': repr(got)[:200], 'other_layout_lexed': repr(ref)[:200]}); break
    det = {'bound': '400 random token sequences (<= 8 tokens) x 4 layouts, seed VERIF_SEED', 'formula': 'changing only whitespace/line breaks/comments between tokens does not change the token sequence',
           'count': n, 'functions': ['hidc.lexer.lex', 'hidc.lexer.readers.skip_whitespace']}
    if bad: det.update(model=bad[:3], replay={'reproduced': True, 'how': 'real lex', 'observed': bad[0]})
    return [Result('C12/layout/independence-bounded', BOUNDED_FAILED if bad else BOUNDED_OK, 'bounded:random', time.time() - t0, (), det)]


def tasks(tier):
    return [task(MOD, 'ob_patterns', ('C12',), label='py/lexer/patterns', cost=4),
            task(MOD, 'ob_greedy_is_longest', ('C12',), label='py/lexer/greedy-bounded', cost=8, maxlen=3 if tier == 'quick' else 5),
            task(MOD, 'ob_tables', ('C12', 'C18'), label='py/lexer/tables'),
            task(MOD, 'ob_escapes', ('C12', 'C13'), label='py/lexer/escapes', cost=20),          # C13: the bytes of a constant start at the lexer
            task(MOD, 'ob_read_int', ('C12',), label='py/lexer/read_int'),
            task(MOD, 'ob_scanner', ('C12',), label='py/lexer/scanner', cost=4),
            task(MOD, 'ob_readers_raise_only_lexer_errors', ('C10',), label='py/lexer/totality', cost=4),
            task(MOD, 'ob_source_lines', ('C12',), label='py/lexer/source-lines', cost=3),
            task(MOD, 'ob_layout_bounded', ('C12',), label='py/lexer/layout-bounded', cost=3)]
