"""C07: the typechecker accepts exactly the well-typed programs.

The typing rules are finite relations over a finite vocabulary of types and expression kinds, so the contracts on
`Expression.cast / coercible / coerce` (and the overrides in IntValue, ByteValue, BoolValue, StringValue, ArithmeticOp,
Volatile, ArrayLiteral) and on the `evaluate` methods of statements are decided by *complete enumeration of the domain on
the real methods* against a declarative rule table transcribed from README "Types" (back end `enum`, exhaustive).
Overload resolution (`FuncCall.evaluate`) is explored by pyvc with an oracle for `coercible` (all answers).
"""
from __future__ import annotations
import itertools, time
from hidv.oblig import task, Result, DISCHARGED, FAILED, UNDECIDED
from hidv.pyvc import core as V

MOD = 'contracts.py_types'


def mods():
    from hidc import ast
    from hidc.ast import DataType, ArrayType
    from hidc.errors import TypeCheckError, CompilerError
    from hidc.lexer import Span, Cursor
    return ast, DataType, ArrayType, TypeCheckError, CompilerError, Span(Cursor(0, 0), Cursor(0, 1))


def all_types():
    ast, DT, AT, *_ = mods()
    scal = [DT.INT, DT.BYTE, DT.BOOL, DT.STRING]
    return scal + [AT(el, c) for el in scal for c in (False, True)]


class Plain:
    """factory for a plain (non-literal) expression of a given type: the base-class behaviour of cast/coercible"""
    _cls = None

    @classmethod
    def make(cls, t):
        ast = mods()[0]
        if cls._cls is None:
            class PlainExpr(ast.Expression):
                def __init__(self, t): self._t = t
                type = property(lambda s: s._t)
                span = mods()[5]
                def evaluate(self, env): return self
                def __repr__(self): return f'<expr:{self._t}>'
            cls._cls = PlainExpr
        return cls._cls(t)


# ---- the declarative rule table (README "Types") ---------------------------------------------------------------------------------
def spec_cast(src, dst):
    """explicit cast `x is T` allowed?  (plain expressions)"""
    ast, DT, AT, *_ = mods()
    if src == dst: return True
    s_arr, d_arr = isinstance(src, AT), isinstance(dst, AT)
    if not s_arr and not d_arr:
        if dst == DT.INT: return src in (DT.BYTE, DT.BOOL)
        if dst == DT.BYTE: return src in (DT.INT, DT.BOOL)
        if dst == DT.BOOL: return src in (DT.INT, DT.BYTE, DT.STRING)
        return False
    if s_arr and dst == DT.BOOL: return True                       # arrays are truthy if non-empty
    if src == DT.STRING and d_arr: return dst == AT(DT.BYTE, True)  # string is byte[] -> const byte[]
    if s_arr and d_arr:
        return src.el_type == dst.el_type and (not src.const) and dst.const     # mutable viewed as const; never the other way
    return False


def spec_coercible(src, dst):
    """implicit coercion of a plain expression"""
    ast, DT, AT, *_ = mods()
    if src == dst: return True
    if src == DT.BYTE and dst == DT.INT: return True
    if src == DT.STRING and dst == AT(DT.BYTE, True): return True
    if isinstance(src, AT) and isinstance(dst, AT):
        return src.el_type == dst.el_type and dst.const         # T[] -> const T[]  (const T[] -> const T[] is identity)
    return False


def result(name, bad, t0, formula, domain, fns, backend='enum'):
    det = {'formula': formula, 'domain': domain, 'functions': fns}
    if bad:
        det.update(model=bad[:6], replay={'reproduced': True, 'how': 'the real method evaluated by CPython on the listed case', 'observed': bad[0]})
    return Result(name, FAILED if bad else DISCHARGED, backend, time.time() - t0, (), det)


def ob_lattice():
    ast, DT, AT, TCE, CE, SPAN = mods()
    res = []
    types = all_types()
    # (1) plain expressions
    t0 = time.time(); bad = []
    for s in types:
        for d in types + [DT.EMPTY]:
            e = Plain.make(s)
            try:
                r = e.cast(d); ok = True
                if r.type != d: bad.append({'case': f'({s}) is {d}', 'problem': f'result has type {r.type}'})
            except TCE:
                ok = False
            except Exception as ex:
                bad.append({'case': f'({s}) is {d}', 'problem': f'raises {type(ex).__name__}: {ex}'}); continue
            if ok != spec_cast(s, d): bad.append({'case': f'({s}) is {d}', 'accepted': ok, 'rule_says': spec_cast(s, d)})
            c = e.coercible(d)
            if bool(c) != spec_coercible(s, d): bad.append({'case': f'{s} coerces to {d}', 'coercible': bool(c), 'rule_says': spec_coercible(s, d)})
            try:
                r = e.coerce(d); okc = True
                if r.type != d: bad.append({'case': f'coerce({s} -> {d})', 'problem': f'result has type {r.type}'})
            except TCE:
                okc = False
            if okc != spec_coercible(s, d): bad.append({'case': f'coerce({s} -> {d})', 'accepted': okc, 'rule_says': spec_coercible(s, d)})
    res.append(result('C07/lattice/plain-expressions', bad, t0, 'forall source type, target type: cast accepted <=> README cast table; coercible <=> README coercion rules; result has the target type',
                      len(types) * (len(types) + 1), ['hidc.ast.expressions.Expression.cast', 'hidc.ast.expressions.Expression.coercible', 'hidc.ast.expressions.Expression.coerce']))
    # (2) literals and arithmetic: shrinkability
    t0 = time.time(); bad = []
    lits = {
        'int-literal': (lambda: ast.IntValue(300, SPAN), DT.INT, True),
        'int-literal-substituted': (lambda: ast.IntValue(300, SPAN).at(SPAN), DT.INT, False),
        'byte-literal': (lambda: ast.ByteValue(65, SPAN), DT.BYTE, True),
        'byte-as-int (implicit)': (lambda: ast.ByteValue(65, SPAN).coerce(DT.INT), DT.INT, True),
        'byte-as-int (explicit)': (lambda: ast.ByteValue(65, SPAN).cast(DT.INT), DT.INT, False),
        'bool-literal': (lambda: ast.BoolValue(True, SPAN), DT.BOOL, False),
        'string-literal': (lambda: ast.StringValue(b'x', SPAN), DT.STRING, False),
        'sum-of-literals': (lambda: ast.Add(SPAN, ast.IntValue(1, SPAN), ast.IntValue(2, SPAN), shrinkable=True), DT.INT, True),
        'sum-with-int-variable': (lambda: ast.Add(SPAN, Plain.make(DT.INT), ast.IntValue(2, SPAN), shrinkable=False), DT.INT, False),
        'neg-literal': (lambda: ast.Neg(SPAN, ast.IntValue(1, SPAN), shrinkable=True), DT.INT, True),
    }
    for nm, (mk, t, shrink) in lits.items():
        for d in types:
            e = mk()
            want = spec_coercible(t, d) or (shrink and d == DT.BYTE)
            if bool(e.coercible(d)) != want: bad.append({'case': f'{nm} coerces to {d}', 'coercible': bool(e.coercible(d)), 'rule_says': want})
            try:
                r = e.coerce(d); okc = True
                if r.type != d: bad.append({'case': f'coerce({nm} -> {d})', 'problem': f'type {r.type}'})
            except TCE:
                okc = False
            if okc != want: bad.append({'case': f'coerce({nm} -> {d})', 'accepted': okc, 'rule_says': want})
            try:
                r = e.cast(d); ok = True
                if r.type != d: bad.append({'case': f'({nm}) is {d}', 'problem': f'type {r.type}'})
            except TCE:
                ok = False
            if ok != spec_cast(t, d): bad.append({'case': f'({nm}) is {d}', 'accepted': ok, 'rule_says': spec_cast(t, d)})
    # evaluate() of arithmetic sets shrinkable iff all operands coerce to byte
    mk = {'lit': lambda: ast.IntValue(3, SPAN), 'bytelit': lambda: ast.ByteValue(7, SPAN), 'bytevar': lambda: Plain.make(DT.BYTE), 'intvar': lambda: Plain.make(DT.INT),
          'substituted-const': lambda: ast.IntValue(5, SPAN, shrinkable=False), 'explicit-int': lambda: ast.ByteValue(9, SPAN).cast(DT.INT)}
    byte_ok = {'lit', 'bytelit', 'bytevar'}
    for cls in ('Add', 'Sub', 'Mul', 'Div', 'Mod'):
        for l, r in itertools.product(mk, repeat=2):
            e = getattr(ast, cls)(SPAN, mk[l](), mk[r]()).evaluate(None)       # folds when both are constants
            want = l in byte_ok and r in byte_ok
            if bool(e.coercible(DT.BYTE)) != want:
                bad.append({'case': f'({l} {cls} {r}) coerces to byte', 'coercible': bool(e.coercible(DT.BYTE)), 'rule_says': want, 'folded': type(e).__name__})
    for cls in ('Neg', 'Pos'):
        for l in mk:
            e = getattr(ast, cls)(SPAN, mk[l]()).evaluate(None)
            if bool(e.coercible(DT.BYTE)) != (l in byte_ok):
                bad.append({'case': f'({cls} {l}) coerces to byte', 'coercible': bool(e.coercible(DT.BYTE)), 'rule_says': l in byte_ok})
    res.append(result('C07/lattice/literals-and-arithmetic', bad, t0,
                      'numeric literals (and arithmetic whose operands all coerce to byte) coerce to byte; substituted constants and explicit `is int` do not; casts as for their type',
                      len(lits) * len(types) + 9, ['hidc.ast.expressions.IntValue.coercible', 'hidc.ast.expressions.IntValue.coerce', 'hidc.ast.expressions.IntValue.cast',
                                                     'hidc.ast.operators.ArithmeticOp.coercible', 'hidc.ast.operators.BinaryArithmeticOp.evaluate']))
    # (3) Volatile views and array literals
    t0 = time.time(); bad = []
    scal = [DT.INT, DT.BYTE, DT.BOOL, DT.STRING]
    for el in scal:
        v = ast.Volatile(Plain.make(AT(el, False)))
        if v.type != AT(el, True): bad.append({'case': f'Volatile({el}[])', 'type': str(v.type)})
        for d in types:
            want = spec_coercible(AT(el, False), d)          # can be unwrapped back to the mutable array
            if bool(v.coercible(d)) != want: bad.append({'case': f'Volatile({el}[]) coerces to {d}', 'coercible': bool(v.coercible(d)), 'rule_says': want})
    elems = {'int-lit': lambda: ast.IntValue(1, SPAN), 'byte-var': lambda: Plain.make(DT.BYTE), 'int-var': lambda: Plain.make(DT.INT),
             'bool-var': lambda: Plain.make(DT.BOOL), 'string-var': lambda: Plain.make(DT.STRING)}
    coerc = {'int-lit': {DT.INT, DT.BYTE}, 'byte-var': {DT.BYTE, DT.INT}, 'int-var': {DT.INT}, 'bool-var': {DT.BOOL}, 'string-var': {DT.STRING}}
    etype = {'int-lit': DT.INT, 'byte-var': DT.BYTE, 'int-var': DT.INT, 'bool-var': DT.BOOL, 'string-var': DT.STRING}
    for n in (1, 2, 3):
        for combo in itertools.product(elems, repeat=n):
            lit = ast.ArrayLiteral(tuple(elems[k]() for k in combo), SPAN)
            common = set.intersection(*[coerc[k] for k in combo])
            # preferred type: first element type all others coerce to
            pref = next((etype[k] for k in combo if etype[k] in common), None)
            try:
                ev = lit.evaluate(None); ok = True
            except TCE:
                ok = False
            if ok != (pref is not None):
                bad.append({'case': f'[{", ".join(combo)}]', 'accepted': ok, 'rule_says': pref is not None}); continue
            if not ok: continue
            if ev.type != AT(pref, True): bad.append({'case': f'[{", ".join(combo)}]', 'type': str(ev.type), 'rule_says': f'const {pref}[]'})
            for d in types:
                want = isinstance(d, AT) and d.el_type in common
                if bool(ev.coercible(d)) != want: bad.append({'case': f'[{", ".join(combo)}] coerces to {d}', 'coercible': bool(ev.coercible(d)), 'rule_says': want})
                if want:
                    locked = ev.cast(d)
                    for d2 in types:
                        want2 = isinstance(d2, AT) and d2.el_type == d.el_type
                        if bool(locked.coercible(d2)) != want2:
                            bad.append({'case': f'([{", ".join(combo)}] is {d}) coerces to {d2}', 'coercible': bool(locked.coercible(d2)), 'rule_says': want2})
    # nested and empty-typed elements
    for nm, el, want in (('nested array', lambda: Plain.make(AT(DT.INT, True)), False), ('empty-typed element (call of an empty function)', lambda: Plain.make(DT.EMPTY), False)):
        try:
            ast.ArrayLiteral((el(),), SPAN).evaluate(None); ok = True
        except TCE:
            ok = False
        if ok != want: bad.append({'case': f'[{nm}]', 'accepted': ok, 'rule_says': want})
    res.append(result('C07/lattice/volatile-and-array-literals', bad, t0,
                      'array literal: type = const array of the first element type all entries coerce to; coercible to any array type all entries coerce to, const or not; '
                      'after a cast only constness may change; nested / empty-typed elements rejected; Volatile views unwrap', 5 + 5 ** 3, [
                          'hidc.ast.expressions.ArrayLiteral.evaluate', 'hidc.ast.expressions.ArrayLiteral.coercible', 'hidc.ast.expressions.ArrayLiteral.cast',
                          'hidc.ast.expressions.Volatile.coercible', 'hidc.ast.expressions.Volatile.cast']))
    return res


def env_with(vars_=(), funcs=(), ret=None, global_scope=False):
    ast, DT, AT, TCE, CE, SPAN = mods()
    env = ast.Environment.empty()
    env.add_funcs(ast.program.builtin_stubs) if hasattr(ast, 'program') else None
    return env


def ob_statements():
    """assignability, declarations/shadowing, returns, operators: accept/reject on every combination of the finite vocabulary"""
    ast, DT, AT, TCE, CE, SPAN = mods()
    from hidc.ast.program import builtin_stubs
    from hidc.lexer import Cursor
    res = []
    types = all_types()
    scal = [DT.INT, DT.BYTE, DT.BOOL, DT.STRING]

    def fresh_env(ret=DT.EMPTY, local=True):
        env = ast.Environment.empty(); env.add_funcs(builtin_stubs)
        return env.new_child(ret) if local else env

    def declare(env, name, t, const):
        d = ast.Declaration(ast.Variable(name, t, const), Plain.make(t), Cursor(0, 0))
        env.vars[name] = d
        return d

    # ---- assignment
    t0 = time.time(); bad = []
    for tt in types:
        for const in (False, True):
            if isinstance(tt, AT) and not const: continue          # array variables are always const bindings
            for rt in types:
                env = fresh_env(); declare(env, 'x', tt, const)
                stmt = ast.Assignment(ast.VariableLookup(ast.UnresolvedName('x'), SPAN), Plain.make(rt))
                try:
                    stmt.evaluate(env); ok = True
                except TCE:
                    ok = False
                want = (not const) and spec_coercible(rt, tt)
                if ok != want: bad.append({'case': f'{"const " if const else ""}{tt} x; x = <{rt}>', 'accepted': ok, 'rule_says': want})
    for at_ in [t for t in types if isinstance(t, AT)] + [DT.STRING]:
        for rt in scal:
            env = fresh_env(); declare(env, 'a', at_, True)
            stmt = ast.Assignment(ast.ArrayLookup(ast.VariableLookup(ast.UnresolvedName('a'), SPAN), ast.IntValue(0, SPAN), Cursor(0, 1)), Plain.make(rt))
            try:
                stmt.evaluate(env); ok = True
            except TCE:
                ok = False
            if at_ == DT.STRING: want = False                      # string elements are not assignable
            else: want = (not at_.const) and spec_coercible(rt, at_.el_type)
            if ok != want: bad.append({'case': f'{at_} a; a[0] = <{rt}>', 'accepted': ok, 'rule_says': want})
        for op in ('Add', 'Sub', 'Mul', 'Div', 'Mod'):
            env = fresh_env(); declare(env, 'a', at_, True)
            stmt = ast.IncAssignment(ast.ArrayLookup(ast.VariableLookup(ast.UnresolvedName('a'), SPAN), ast.IntValue(0, SPAN), Cursor(0, 1)),
                                     ast.IntValue(1, SPAN), getattr(ast, op), SPAN)
            try:
                stmt.evaluate(env); ok = True
            except TCE:
                ok = False
            want = isinstance(at_, AT) and not at_.const and at_.el_type in (DT.INT, DT.BYTE)
            if ok != want: bad.append({'case': f'{at_} a; a[0] {op}= 1', 'accepted': ok, 'rule_says': want})
    env = fresh_env()
    try:
        ast.Assignment(ast.IntValue(1, SPAN), ast.IntValue(2, SPAN)).evaluate(env); bad.append({'case': '1 = 2', 'accepted': True})
    except (TCE, AttributeError):
        pass
    res.append(result('C07/statements/assignment', bad, t0,
                      'assignment accepted <=> target is a non-const variable or an element of a non-const array (never a string element) and the value coerces to its type; '
                      'compound assignment needs a numeric element', len(types) * len(types) * 2, ['hidc.ast.statements.Assignment.evaluate', 'hidc.ast.statements.IncAssignment.evaluate',
                      'hidc.ast.expressions.ArrayLookup.const', 'hidc.ast.expressions.ArrayLookup.type', 'hidc.ast.expressions.VariableLookup.evaluate']))

    # ---- declarations: initialiser coercion, redeclaration, shadowing
    t0 = time.time(); bad = []
    for vt in types:
        for it in types:
            env = fresh_env()
            d = ast.Declaration(ast.Variable('x', vt, isinstance(vt, AT)), Plain.make(it), Cursor(0, 0))
            try:
                d.evaluate(env); ok = True
            except TCE:
                ok = False
            want = spec_coercible(it, vt) and not (isinstance(vt, AT) and vt.const and isinstance(it, AT) and not it.const)
            if ok != want: bad.append({'case': f'{vt} x = <{it}>', 'accepted': ok, 'rule_says': want})
    def scenario(prev_scope, new_scope):
        env_g = ast.Environment.empty(); env_g.add_funcs(builtin_stubs)
        env_f = env_g.new_child(DT.EMPTY); env_b = env_f.new_child()
        scopes = {'global': env_g, 'function': env_f, 'block': env_b}
        ast.Declaration(ast.Variable('x', DT.INT, False), ast.IntValue(1, SPAN), Cursor(0, 0)).evaluate(scopes[prev_scope])
        try:
            ast.Declaration(ast.Variable('x', DT.INT, False), ast.IntValue(2, SPAN), Cursor(1, 0)).evaluate(scopes[new_scope]); return True
        except TCE:
            return False
    for prev, new, want in (('global', 'global', False), ('global', 'function', True), ('global', 'block', True), ('function', 'function', False),
                            ('function', 'block', False), ('block', 'block', False)):
        ok = scenario(prev, new)
        if ok != want: bad.append({'case': f'x declared in {prev} scope, again in {new} scope', 'accepted': ok, 'rule_says': want})
    # every sequence of up to three declarations of one name over the scope chain global > function > block > inner block:
    # a declaration is rejected iff the name is already declared in the same scope or in an enclosing *local* scope (only globals may be shadowed)
    import itertools as _it
    order = ['global', 'function', 'block', 'inner']
    nseq = 0
    for L_ in (2, 3):
        for seq in _it.product(order, repeat=L_):
            nseq += 1
            env_g = ast.Environment.empty(); env_g.add_funcs(builtin_stubs)
            env_f = env_g.new_child(DT.EMPTY); env_b = env_f.new_child(); env_i = env_b.new_child()
            scopes = dict(zip(order, (env_g, env_f, env_b, env_i)))
            declared = set(); got = []; want = []
            for k, sc in enumerate(seq):
                visible_local = any(p in declared for p in order[1:order.index(sc) + 1]) if sc != 'global' else False
                w_ok = not (sc in declared or visible_local)
                try:
                    ast.Declaration(ast.Variable('x', DT.INT, False), ast.IntValue(k, SPAN), Cursor(k, 0)).evaluate(scopes[sc]); g_ok = True
                except TCE:
                    g_ok = False
                got.append(g_ok); want.append(w_ok)
                if g_ok != w_ok: break
                if g_ok: declared.add(sc)
            if got != want:
                bad.append({'case': 'x declared in turn in scopes ' + ' , '.join(seq), 'accepted': got, 'rule_says': want})
    env = fresh_env()
    try:
        ast.VariableLookup(ast.UnresolvedName('nope'), SPAN).evaluate(env); bad.append({'case': 'use of an undeclared name', 'accepted': True})
    except TCE:
        pass
    res.append(result('C07/statements/declarations', bad, t0, 'initialiser must coerce to the declared type (a mutable array cannot initialise a const array variable); '
                      'redeclaration rejected; globals may be shadowed, locals may not; undeclared names rejected', len(types) ** 2 + 7 + nseq,
                      ['hidc.ast.statements.Declaration.evaluate', 'hidc.ast.expressions.VariableLookup.evaluate']))

    # ---- return
    t0 = time.time(); bad = []
    for rt in scal + [DT.EMPTY]:
        for vt in types + [None]:
            env = fresh_env(ret=rt)
            stmt = ast.ReturnStatement(SPAN, Plain.make(vt) if vt is not None else None)
            try:
                stmt.evaluate(env); ok = True
            except TCE:
                ok = False
            want = (vt is None) if rt == DT.EMPTY else (vt is not None and spec_coercible(vt, rt))
            if ok != want: bad.append({'case': f'return <{vt}> in a function returning {rt}', 'accepted': ok, 'rule_says': want})
    res.append(result('C07/statements/return', bad, t0, 'return value present <=> function is not empty, and it must coerce to the return type', 5 * (len(types) + 1),
                      ['hidc.ast.statements.ReturnStatement.evaluate']))

    # ---- operators and `is`
    t0 = time.time(); bad = []
    numeric = lambda t: t in (DT.INT, DT.BYTE)
    for cls in ('Add', 'Sub', 'Mul', 'Div', 'Mod', 'Lt', 'Le', 'Gt', 'Ge'):
        for lt, rt in itertools.product(types, repeat=2):
            try:
                getattr(ast, cls)(SPAN, Plain.make(lt), Plain.make(rt)).evaluate(None); ok = True
            except TCE:
                ok = False
            want = numeric(lt) and numeric(rt)
            if ok != want: bad.append({'case': f'<{lt}> {cls} <{rt}>', 'accepted': ok, 'rule_says': want})
    for cls in ('Eq', 'Ne'):
        for lt, rt in itertools.product(types, repeat=2):
            try:
                getattr(ast, cls)(SPAN, Plain.make(lt), Plain.make(rt)).evaluate(None); ok = True
            except TCE:
                ok = False
            want = (numeric(lt) and numeric(rt)) or (lt == DT.BOOL and rt == DT.BOOL)
            if ok != want: bad.append({'case': f'<{lt}> {cls} <{rt}>', 'accepted': ok, 'rule_says': want})
    for cls in ('And', 'Or'):
        for lt, rt in itertools.product(types, repeat=2):
            try:
                getattr(ast, cls)(SPAN, Plain.make(lt), Plain.make(rt)).evaluate(None); ok = True
            except TCE:
                ok = False
            if not ok: bad.append({'case': f'<{lt}> {cls} <{rt}>', 'accepted': ok, 'rule_says': 'any value is truthy/falsy'})
    for t in types:
        for cls, want in (('Not', True), ('Neg', numeric(t)), ('Pos', numeric(t))):
            try:
                getattr(ast, cls)(SPAN, Plain.make(t)).evaluate(None); ok = True
            except TCE:
                ok = False
            if ok != want: bad.append({'case': f'{cls} <{t}>', 'accepted': ok, 'rule_says': want})
        for d in types:
            try:
                r = ast.Is(SPAN, Plain.make(t), d).evaluate(None); ok = True
            except TCE:
                ok = False
            if ok != spec_cast(t, d): bad.append({'case': f'<{t}> is {d}', 'accepted': ok, 'rule_says': spec_cast(t, d)})
        for nm, node in (('index', lambda: ast.ArrayLookup(Plain.make(t), ast.IntValue(0, SPAN), Cursor(0, 1))), ('.length', lambda: ast.LengthLookup(Plain.make(t), Cursor(0, 1)))):
            try:
                node().evaluate(None); ok = True
            except TCE:
                ok = False
            want = isinstance(t, AT) or t == DT.STRING
            if ok != want: bad.append({'case': f'<{t}> {nm}', 'accepted': ok, 'rule_says': want})
        for it in types:
            try:
                ast.ArrayLookup(Plain.make(AT(DT.INT, False)), Plain.make(it), Cursor(0, 1)).evaluate(None); ok = True
            except TCE:
                ok = False
            if ok != spec_coercible(it, DT.INT): bad.append({'case': f'index of type {it}', 'accepted': ok, 'rule_says': spec_coercible(it, DT.INT)})
    for lt, rt in itertools.product([DT.INT, DT.BYTE, DT.BOOL, DT.STRING, AT(DT.INT, False)], types):
        try:
            ast.Speculation(SPAN, Plain.make(lt), Plain.make(rt)).evaluate(None); ok = True
        except TCE:
            ok = False
        want = lt in (DT.INT, DT.BYTE, DT.BOOL) and spec_coercible(rt, lt)
        if ok != want: bad.append({'case': f'<{lt}> ?? <{rt}>', 'accepted': ok, 'rule_says': want})
    res.append(result('C07/expressions/operators-casts-lookups', bad, t0,
                      'arithmetic/comparison need int or byte operands; equality also bool/bool; logic accepts anything with a truth value; `is` follows the cast table; '
                      'indexing/.length need an array or string and an int index; ?? needs a scalar left side and a coercible right side', 11 * len(types) ** 2,
                      ['hidc.ast.operators.BinaryArithmeticOp.evaluate', 'hidc.ast.operators.CompareOp.evaluate', 'hidc.ast.operators.EqualityOp.evaluate',
                       'hidc.ast.operators.LogicalOp.evaluate', 'hidc.ast.operators.Is.evaluate', 'hidc.ast.operators.Speculation.evaluate',
                       'hidc.ast.expressions.ArrayLookup.evaluate', 'hidc.ast.expressions.LengthLookup.evaluate']))

    # ---- duplicate signatures
    t0 = time.time(); bad = []
    from hidc.lexer.tokens import Ident
    from hidc.ast.program import BuiltinStub
    for a, b, want in (((DT.INT,), (DT.INT,), False), ((DT.INT,), (DT.BYTE,), True), ((), (), False), ((AT(DT.INT, True),), (AT(DT.INT, False),), True)):
        env = ast.Environment.empty()
        def decl(pts):
            ps = tuple(ast.Parameter(ast.Variable(f'p{i}', t, False), SPAN) for i, t in enumerate(pts))
            return ast.FuncDeclaration(SPAN, DT.EMPTY, Ident('f'), ps, ast.CodeBlock((), SPAN, False))
        try:
            env.add_funcs([decl(a)]); env.add_funcs([decl(b)]); ok = True
        except TCE:
            ok = False
        if ok != want: bad.append({'case': f'f{a} and f{b}', 'accepted': ok, 'rule_says': want})
    res.append(result('C07/functions/duplicate-signatures', bad, t0, 'two functions with the same name and parameter types are rejected; overloads accepted', 4,
                      ['hidc.ast.symbols.Environment.add_funcs']))
    return res


def ob_overload():
    """FuncCall.evaluate: exact-match overload if any, else the first declared overload all of whose parameters every argument coerces to (pyvc,
    `coercible` answered by an oracle: all answers explored)"""
    ast, DT, AT, TCE, CE, SPAN = mods()
    from hidc.ast import expressions
    from hidc.lexer.tokens import Ident
    t0 = time.time()
    f, node = V.get_function('FuncCall.evaluate', expressions)
    A, Bt, C = DT.INT, DT.BYTE, DT.BOOL
    bad = []; npaths = 0
    sig_sets = [[(A, A), (Bt, A), (A, Bt)], [(Bt,), (A,)], [(A,), (A, A)], [(C, C)], [(A, Bt, C), (Bt, Bt, Bt), (A, A, A)]]
    for sigs in sig_sets:
        for nargs in sorted({len(s) for s in sigs} | {0}):
            for exact in [None] + [s for s in sigs if len(s) == nargs]:
                answers = {}

                class Arg:
                    def __init__(self, i, t): self.i = i; self.type = t; self.span = SPAN
                    def evaluate(self, env): return self
                    def coercible(self, t):
                        key = (self.i, t)
                        if key not in answers:
                            answers[key] = (t == self.type) or (V.P().choose(2) == 0)
                        return answers[key]
                    def coerce(self, t): return ('coerced', self.i, t)

                def run(it):
                    answers.clear()
                    # argument types: the exact signature, or a type not used by any signature at all
                    ats = exact if exact is not None else tuple(DT.STRING for _ in range(nargs))
                    args = tuple(Arg(i, t) for i, t in enumerate(ats))
                    funcs = {Ident('f'): {s: V.Sym(f'decl{k}', ret_type=('ret', k)) for k, s in enumerate(sigs)}, Ident('write'): {}}
                    env = V.Sym('env', funcs=funcs)
                    call = expressions.FuncCall(Ident('f'), args, SPAN)
                    return it.call_function(f, node, (call, env), {}), dict(answers)
                for pr in V.explore(run):
                    npaths += 1
                    if pr.outcome == 'raise' and not isinstance(pr.value, TCE):
                        bad.append({'sigs': str(sigs), 'raises': repr(pr.value)}); continue
                    ans = pr.value[1] if pr.outcome == 'return' else None
                    if pr.outcome == 'return':
                        out, ans = pr.value
                        chosen = out.type[1]
                    # reconstruct the oracle answers of this path from the decisions is not needed: recompute the expectation from `ans`
                    if pr.outcome == 'return':
                        ats = exact if exact is not None else tuple(DT.STRING for _ in range(nargs))
                        if exact is not None:
                            want = sigs.index(exact)
                        else:
                            want = next((k for k, s in enumerate(sigs) if len(s) == nargs and all(ans.get((i, t), t == ats[i]) for i, t in enumerate(s))), None)
                        if chosen != want:
                            bad.append({'signatures': str(sigs), 'argument_types': str(ats), 'coercible_answers': str(ans), 'bound_to': chosen, 'rule_says': want})
                        else:
                            s = sigs[chosen]
                            if tuple(out.args) != tuple(('coerced', i, t) for i, t in enumerate(s)):
                                bad.append({'signatures': str(sigs), 'problem': 'arguments are not coerced to the parameter types of the chosen overload'})
    det = {'formula': 'FuncCall binds the overload with exactly matching parameter types if there is one, otherwise the first declared overload of the right arity every argument is '
                      'coercible to (all oracle answers for `coercible`); arguments are coerced to its parameter types; otherwise TypeCheckError', 'paths': npaths,
           'functions': ['hidc.ast.expressions.FuncCall.evaluate']}
    if bad: det.update(model=bad[:4], replay={'reproduced': None})
    return [Result('C07/functions/overload-resolution', FAILED if bad else DISCHARGED, 'pyvc+enum', time.time() - t0, (), det)]


def ob_overload_order():
    """declaration order of overloads is what the fallback resolution iterates over: type checking the declarations must not reorder the overload
    table, wherever the caller sits (before, between, inside, after the overloads)"""
    ast, DT, AT, TCE, CE, SPAN = mods()
    import dataclasses as dc
    from hidc.lexer import SourceCode
    from hidc.parser import parse
    from hidc.lexer.tokens import Ident
    t0 = time.time(); bad = []; n = 0
    def calls(tree, name):
        out = []
        def walk(x):
            if isinstance(x, ast.FuncCall) and x.func.name == name: out.append(x)
            if dc.is_dataclass(x) and not isinstance(x, type):
                for f in dc.fields(x):
                    v = getattr(x, f.name, None)
                    if isinstance(v, (list, tuple)):
                        for y in v: walk(y)
                    elif dc.is_dataclass(v): walk(v)
        walk(tree); return out
    orders = [('int', 'byte'), ('byte', 'int')]
    for first, second in orders:
        src = (f'int early() {{ return pick([1, 2]); }}\nint pick({first}[] a) {{ return 1; }}\nint mid() {{ return pick([1, 2]); }}\n'
               f'int pick({second}[] a) {{ return pick([3, 4]); }}\nint late() {{ return pick([5, 6]); }}\nint pick(bool[] a) {{ return 3; }}\n'
               'empty @is_you() { write(early() + mid() + late() + pick([7, 8])); }')
        env = ast.Environment.empty()
        try:
            parse(SourceCode.from_string(src)).evaluate(env)
        except CE as e:
            bad.append({'program': src, 'raises': repr(e)}); continue
        table = [tuple(str(t) for t in sig) for sig in env.funcs[Ident('pick')]]
        want_table = [(f'{first}[]',), (f'{second}[]',), ('bool[]',)]
        n += 1
        if table != want_table:
            bad.append({'program': src, 'overload_table_after_typechecking': table, 'declaration_order': want_table})
        for fname, decls in env.funcs.items():
            for sig, decl in decls.items():
                if not isinstance(decl, ast.FuncDeclaration): continue
                for c in calls(decl.body, 'pick'):
                    n += 1
                    got = str(c.args[0].type)
                    if got != f'{first}[]':
                        bad.append({'caller': f'{fname}({", ".join(map(str, sig))})', 'call': 'pick([..])', 'bound_to': f'pick({got})', 'documented': f'pick({first}[]) (first declared overload every argument coerces to)'})
    det = {'formula': 'a call with no exact match binds the first *declared* coercible overload wherever the caller stands; the overload table keeps declaration order through type checking',
           'domain': n, 'functions': ['hidc.ast.program.FuncDeclaration.evaluate', 'hidc.ast.program.Program.evaluate', 'hidc.ast.expressions.FuncCall.evaluate', 'hidc.ast.symbols.Environment.add_funcs']}
    if bad: det.update(model=bad[:5], replay={'reproduced': True, 'how': 'real parser and typechecker on the program', 'observed': bad[0]})
    return [Result('C07/overload/declaration-order-kept', FAILED if bad else DISCHARGED, 'enum', time.time() - t0, (), det)]


def ob_missing_return():
    """a value-returning function whose body can complete without returning is rejected ("Missing return statement"), one that cannot is accepted,
    and reachable statements after a construct are kept: a table of function bodies over every block construct, with the documented verdict
    (README: a loop with a non-constant condition may run zero times; a constant-true loop without break does not complete; a try completes if its
    body or its handler can; `if` completes if either branch can)"""
    ast, DT, AT, TCE, CE, SPAN = mods()
    from hidc.lexer import SourceCode
    from hidc.parser import parse
    t0 = time.time(); bad = []; n = 0
    R = 'return 1;'
    bodies = [
        ('return 1;', True), ('', False), ('if (x > 0) { return 1; }', False), ('if (x > 0) { return 1; } else { return 2; }', True),
        ('if (x > 0) { return 1; } return 2;', True), ('while (x > 0) { return 1; }', False), ('while (x > 0) { return 1; } return 2;', True),
        ('while (true) { return 1; }', True), ('while (true) { if (x > 3) { return x; } x += 1; }', True), ('while (true) { if (x > 3) { break; } x += 1; }', False),
        ('while (true) { if (x > 3) { break; } x += 1; } return x;', True), ('while (false) { return 1; }', False), ('while (1 > 2) { x += 1; } return x;', True),
        ('for (int i = 0; i < x; i += 1) { return i; }', False), ('for (;;) { return 1; }', True), ('for (;;) { if (x > 1) { break; } } return 3;', True),
        ('while (x > 0) { if (x > 5) { return 1; } else { return 2; } }', False), ('while (x > 0) { if (x > 5) { return 1; } else { return 2; } } return 0;', True),
        ('{ return 1; }', True), ('{ { if (x > 0) { return 1; } } }', False), ('all_is_broken();', True), ('if (x > 0) { all_is_win(); } else { return 1; }', True),
        ('while (true) { if (x > 3) { break; } if (x > 100) { x = 0; } x += 1; } return x;', True), ('while (true) { if (x > 3) { break; } if (x > 100) { x = 0; } x += 1; }', False),
    ]
    you_bodies = [
        ('try { return 1; } undo { return 2; }', True), ('try { return 1; } undo { }', False), ('try { return !d(x); } undo { } return 0 - 1;', True),
        ('try { return !d(x); } undo { }', False), ('try { return !d(x); } stop { } return 3;', True), ('try { !is_defeat(); } undo { return 1; }', True),
        ('try { x += 1; } undo { return 1; }', False), ('try { while (true) { if (!d(x) > 2) { break; } } return 1; } stop { return 2; }', True),
    ]
    def verdict(src):
        env = ast.Environment.empty()
        try:
            parse(SourceCode.from_string(src)).evaluate(env); return True, ''
        except TCE as e:
            return False, str(e)
    for body, want in bodies:
        n += 1
        src = f'int f(int x) {{ {body} }}\nempty @is_you() {{ write(f(1)); }}'
        got, why = verdict(src)
        if got != want: bad.append({'function': f'int f(int x) {{ {body} }}', 'accepted': got, 'documented': want, 'diagnostic': why})
    for body, want in you_bodies:
        n += 1
        src = f'int !d(int v) {{ if (v > 5) {{ !is_defeat(); }} return v; }}\nint @f(int x) {{ {body} }}\nempty @is_you() {{ write(@f(1)); }}'
        got, why = verdict(src)
        if got != want: bad.append({'function': f'int @f(int x) {{ {body} }}', 'accepted': got, 'documented': want, 'diagnostic': why})
    det = {'formula': 'a value-returning function is accepted iff its body cannot complete without returning', 'bound': f'{n} function bodies over every block construct', 'count': n,
           'functions': ['hidc.ast.program.FuncDeclaration.evaluate', 'hidc.ast.blocks.CodeBlock.evaluate', 'hidc.ast.blocks.LoopBlock.exit_modes', 'hidc.ast.blocks.IfBlock.exit_modes',
                         'hidc.ast.blocks.TryBlock.exit_modes', 'hidc.ast.blocks.ExitMode.replace']}
    if bad: det.update(model=bad[:5], replay={'reproduced': True, 'how': 'real parser and typechecker on the function', 'observed': bad[0]})
    from hidv.oblig import BOUNDED_OK, BOUNDED_FAILED
    return [Result('C07/missing-return/table', BOUNDED_FAILED if bad else BOUNDED_OK, 'bounded:corpus', time.time() - t0, (), det)]


def ob_cast_programs():
    """casts written in source text (through the real parser): the documented targets are accepted, `empty` / `empty[]` / nested arrays are not types
    a value can be cast to, invalid conversions are rejected"""
    ast, DT, AT, TCE, CE, SPAN = mods()
    from hidc.lexer import SourceCode
    from hidc.parser import parse
    t0 = time.time(); bad = []; n = 0
    pre = 'empty g() { } int h() { return 1; } int[] arr = [1, 2]; string s = "ab"; byte b = 3; bool t = true;\n'
    table = [
        ('int x = h() is int;', True), ('byte x = h() is byte;', True), ('bool x = h() is bool;', True), ('int x = b is int;', True), ('int x = t is int;', True),
        ('byte x = t is byte;', True), ('bool x = s is bool;', True), ('bool x = arr is bool;', True), ('const byte[] x = s is byte[];', True), ('bool x = b is bool;', True),
        ('g() is empty;', False), ('int x = ([] is empty[]).length;', False), ('[] is empty[];', False), ('int x = h() is empty;', False), ('string x = h() is string;', False),
        ('int x = s is int;', False), ('int[] x = s is int[];', False), ('byte[] x = s is byte[];', False), ('int x = arr is int;', False), ('int[][] x = arr is int[][];', False),
        ('string x = b is string;', False),
    ]
    for body, want in table:
        n += 1
        src = pre + 'empty @is_you() { ' + body + ' }'
        try:
            parse(SourceCode.from_string(src)).evaluate(ast.Environment.empty()); got = True; why = ''
        except CE as e:
            got = False; why = f'{type(e).__name__}: {e}'
        except Exception as e:
            got = 'crash'; why = repr(e)
        if got is not want: bad.append({'statement': body, 'accepted': got, 'documented': want, 'diagnostic': why[:120]})
    det = {'formula': 'a cast written in the source is accepted iff README "Types" allows the conversion; `empty` is not a cast target', 'bound': f'{n} cast statements', 'count': n,
           'functions': ['hidc.parser.grammar.ps_expr3', 'hidc.parser.grammar.ps_data_type', 'hidc.ast.operators.Is.evaluate', 'hidc.ast.expressions.Expression.cast']}
    if bad: det.update(model=bad[:5], replay={'reproduced': True, 'how': 'real parser and typechecker on the statement', 'observed': bad[0]})
    from hidv.oblig import BOUNDED_OK, BOUNDED_FAILED
    return [Result('C07/casts/source-level-table', BOUNDED_FAILED if bad else BOUNDED_OK, 'bounded:corpus', time.time() - t0, (), det)]


def tasks(tier):
    return [task(MOD, 'ob_lattice', ('C07',), label='py/types/lattice', cost=3),
            task(MOD, 'ob_statements', ('C07',), label='py/types/statements', cost=3),
            task(MOD, 'ob_overload', ('C07',), label='py/types/overload', cost=3),
            task(MOD, 'ob_overload_order', ('C07', 'C18'), label='py/types/overload-order', cost=1),
            task(MOD, 'ob_missing_return', ('C07', 'C16'), label='py/types/missing-return', cost=1),
            task(MOD, 'ob_cast_programs', ('C07',), label='py/types/cast-programs', cost=1)]
