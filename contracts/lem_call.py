"""Lemmas for calls: the real CodeGen.eval_func_call on abstract arguments against the call protocol, inlined built-ins,
dispatch of the write family by concrete storage (C01, C17, C08 `a call leaves its caller's frame untouched`), and the
callee side: the real CodeGen.gen_func prologue (parameter slots agree with what the caller pushes; entry guard exact; no
code after the body) (C01, C04, C16)."""
from __future__ import annotations
import time, itertools
import z3
from hidv.oblig import task
from hidv.harness.lemma import Lemma
from hidv.harness.vcg import SPAN, ABlock
from hidv import smt
from hidc import ast
from hidc.ast import DataType, ArrayType, ExitMode
from hidc.lexer.tokens import Ident
from hidc.codegen import asm, stdlib
from hidc.codegen.symbols import AccessMode, ConcreteSignature, ConcreteArrayType
from hidc.codegen.generator import StackPoint

MOD = 'contracts.lem_call'
I, B, Y, S, E_ = DataType.INT, DataType.BOOL, DataType.BYTE, DataType.STRING, DataType.EMPTY
GEN = ['hidc.codegen.generator.CodeGen.eval_func_call', 'hidc.codegen.generator.CodeGen.push_expr', 'hidc.codegen.generator.CodeGen.label_for_func',
       'hidc.codegen.generator.CodeGen.reserve_word', 'hidc.codegen.generator.CodeGen.reserve_type', 'hidc.codegen.generator.CodeGen.pop',
       'hidc.codegen.generator.CodeGen.goto', 'hidc.codegen.generator.CodeGen.add_label', 'hidc.codegen.stdlib.stdlib_funcs', 'hidc.codegen.stdlib.abstract_funcs',
       'hidc.codegen.symbols.ConcreteSignature.abstract_params']

SRC = '''
int f(int a) { return a; }
byte g(byte b, int c) { return b; }
bool h(bool x) { return x; }
empty p() { }
int q(int[] arr, int n) { return n; }
empty r(const byte[] s) { }
int s2(string t, bool u, byte v) { return 0; }
empty !d(int x) { !is_defeat(); }
empty @y(int x) { }
empty @is_you() { }
'''

# name -> (callee, args builder, return type, callee label key)
def cases(L):
    def arr(nm, el, where, access):
        return L.array_var(nm, el, where, access)
    C = {
        'f(opaque)': (Ident('f'), lambda: (L.opaque('a'),), I),
        'f(literal)': (Ident('f'), lambda: (L.literal('a'),), I),
        'f(local)': (Ident('f'), lambda: (L.local('a'),), I),
        'f(glob)': (Ident('f'), lambda: (L.glob('a'),), I),
        'f(byte-to-int)': (Ident('f'), lambda: (ast.ByteToInt(L.opaque('a', Y)),), I),
        'f(sum)': (Ident('f'), lambda: (ast.Add(None, L.opaque('a'), L.opaque('b')),), I),
        'g(opaque,opaque)': (Ident('g'), lambda: (L.opaque('a', Y), L.opaque('b')), Y),
        'g(int-to-byte,glob)': (Ident('g'), lambda: (ast.IntToByte(L.opaque('a')), L.glob('b')), Y),
        'g(literal,local)': (Ident('g'), lambda: (L.literal('a', Y), L.local('b')), Y),
        'h(opaque)': (Ident('h'), lambda: (L.opaque('a', B),), B),
        'h(cmp)': (Ident('h'), lambda: (ast.Lt(None, L.opaque('a'), L.opaque('b')),), B),
        'p()': (Ident('p'), lambda: (), E_),
        'q(local-array,opaque)': (Ident('q'), lambda: (arr('v', I, 'local', AccessMode.RW), L.opaque('n')), I),
        'q(global-array,local)': (Ident('q'), lambda: (arr('v', I, 'glob', AccessMode.RW), L.local('n')), I),
        'r(local-R)': (Ident('r'), lambda: (arr('v', Y, 'local', AccessMode.R),), E_),
        'r(global-RC)': (Ident('r'), lambda: (arr('v', Y, 'glob', AccessMode.RC),), E_),
        'r(volatile-RW)': (Ident('r'), lambda: (ast.Volatile(arr('v', Y, 'local', AccessMode.RW)),), E_),
        'r(string)': (Ident('r'), lambda: (ast.StringToByteArray(L.string_operand('t', 'opaque')),), E_),
        's2(string,bool,byte)': (Ident('s2'), lambda: (L.string_operand('t', 'local'), L.opaque('u', B), L.opaque('v', Y)), I),
        'write(int)': (Ident('write'), lambda: (L.opaque('a'),), E_),
        'write(bool)': (Ident('write'), lambda: (L.opaque('a', B),), E_),
        'write(string)': (Ident('write'), lambda: (L.string_operand('t', 'opaque'),), E_),
        'write(string-literal)': (Ident('write'), lambda: (L.string_operand('t', 'literal'),), E_),
        'write(bytes-RC)': (Ident('write'), lambda: (arr('v', Y, 'glob', AccessMode.RC),), E_),
        'write(bytes-R)': (Ident('write'), lambda: (arr('v', Y, 'local', AccessMode.R),), E_),
        'write(bytes-volatile)': (Ident('write'), lambda: (ast.Volatile(arr('v', Y, 'local', AccessMode.RW)),), E_),
        'write(string-as-bytes)': (Ident('write'), lambda: (ast.StringToByteArray(L.string_operand('t', 'opaque')),), E_),
        'write(byte)': (Ident('write'), lambda: (L.opaque('a', Y),), E_),
        'write(byte-literal)': (Ident('write'), lambda: (L.literal('a', Y),), E_),
        'writeln()': (Ident('writeln'), lambda: (), E_),
        'writeln(int)': (Ident('writeln'), lambda: (L.opaque('a'),), E_),
        'writeln(byte)': (Ident('writeln'), lambda: (L.opaque('a', Y),), E_),
        'writeln(bool)': (Ident('writeln'), lambda: (L.local('a', B),), E_),
        'writeln(string)': (Ident('writeln'), lambda: (L.string_operand('t', 'opaque'),), E_),
        'sleep(opaque)': (Ident('sleep'), lambda: (L.opaque('a'),), E_),
        'sleep(literal)': (Ident('sleep'), lambda: (L.literal('a'),), E_),
        'debug()': (Ident('debug'), lambda: (), E_),
        'progress()': (Ident('progress'), lambda: (), E_),
        'all_is_win()': (Ident('all_is_win'), lambda: (), E_),
        'all_is_broken()': (Ident('all_is_broken'), lambda: (), E_),
        '@y(opaque)': (Ident.you('y'), lambda: (L.opaque('a'),), E_),
    }
    return C


def callee_table(L):
    """label -> contract parameters, for every label eval_func_call may jump to in these lemmas"""
    w = L.w
    t = {}
    for csig, lbl in L.cg.func_labels.items():
        sizes = []
        for p in csig.concrete_params:
            if isinstance(p, ConcreteArrayType): sizes += [w, w]
            else: sizes.append(1 if p.byte_sized else w)
        try:
            ret = L.cg.env.funcs[csig.name][csig.abstract_params].ret_type
        except KeyError:
            ret = E_
        t[lbl.label_name] = {'sizes': sizes, 'ret': ret, 'defeat': csig.name.flavor.name == 'DEFEAT'}
    return t


def props(unchecked, name):
    # terminal calls: the typechecker drops what follows them and appends no return (C16); they are how a run ends without halting (C03)
    sim = ('C01', 'C08') + (('C17',) if name.startswith('write') else ()) + (('C15',) if unchecked else ()) + (('C16', 'C03') if name.startswith('all_is') else ())
    return {'SIM': sim, 'INV': ('C08',), 'NOBOT': ('C03',), 'SAFE': ('C04',), 'NOERR': ('C10',)}


def run_calls(w, unchecked, tier):
    res = []
    names = list(cases(Lemma('probe', w, unchecked, src=SRC)))
    for nm in names:
        for keep in (False, True):
            L = Lemma(f'call/{nm}/keep={int(keep)}/w{w}/{"unchecked" if unchecked else "checked"}', w, unchecked, src=SRC)
            L.functions.update(GEN)
            try:
                ident, mk, rt = cases(L)[nm]
                args = mk()
                e = ast.FuncCall(ident, tuple(args), SPAN, rt)
                # the callee table is only known after the real method has asked label_for_func: install lazily
                L.ctx.external = lambda eng, n, st, cond, L=L: (L.install_callees(callee_table(L)) or L.call_contract(eng, n, st, cond))
                cov = [('exit', '<end>')] if not nm.startswith('all_is') else [('term', nm[:-2])]
                if rt == E_:
                    if keep: continue
                    res += L.check_stmts([e], props(unchecked, nm), cov)
                else:
                    res += L.check_scalar_expr(e, 'r1', keep, props(unchecked, nm), cov)
            finally:
                L.close()
    return res


def run_defeat_calls(virtual, w, unchecked):
    res = []
    for nm, mk in (('d(opaque)', lambda L: (L.opaque('a'),)), ('d(local)', lambda L: (L.local('a'),))):
        L = Lemma(f'call/defeat-function/{"variable" if virtual else "real"}-defeat/{nm}/w{w}/{"unchecked" if unchecked else "checked"}', w, unchecked,
                  src=SRC, may_defeat=True, virtual_defeat=virtual)
        L.functions.update(GEN)
        try:
            e = ast.FuncCall(Ident.defeat('d'), tuple(mk(L)), SPAN, E_)
            L.ctx.external = lambda eng, n, st, cond, L=L: (L.install_callees(callee_table(L)) or L.call_contract(eng, n, st, cond))
            P = props(unchecked, nm); P['SIM'] = P['SIM'] + ('C02',)
            res += L.check_stmts([e], P, [('exit', '<end>')])
        finally:
            L.close()
    return res


# ---- callee side ---------------------------------------------------------------------------------------------------------------------
def run_gen_func(sig, w, unchecked):
    """gen_func on a declaration whose body is an abstract block that cannot fall through (what FuncDeclaration.evaluate guarantees)"""
    from hidc.ast import FuncDeclaration, Parameter, Variable, CodeBlock
    name, ptypes, rt, flavor = sig
    L = Lemma(f'func/{name}/w{w}/{"unchecked" if unchecked else "checked"}', w, unchecked, src=SRC, concrete_offset=0,
              may_defeat=(flavor == 'DEFEAT'), virtual_defeat=(flavor == 'DEFEAT'))
    L.functions.update(['hidc.codegen.generator.CodeGen.gen_func', 'hidc.codegen.generator.CodeGen.reserve_type', 'hidc.codegen.generator.CodeGen.reserve_word',
                        'hidc.codegen.generator.CodeGen.goto', 'hidc.codegen.tracker.Tracker.add', 'hidc.codegen.tracker.Tracker.pop_level',
                        'hidc.codegen.generator.CodeGen.pop'])
    res = L.results
    try:
        cg = L.cg; c = L.ctx; w_ = w
        T = {'int': I, 'byte': Y, 'bool': B, 'string': S}
        params = []; ctypes = []
        for k, pt in enumerate(ptypes):
            if pt.endswith('[]'):
                el = T[pt[:-2].replace('const ', '')]; const = pt.startswith('const ')
                t_ = ArrayType(el, const); ct = ConcreteArrayType(el, AccessMode.R if const else AccessMode.RW)
            else:
                t_ = T[pt]; ct = t_
            params.append(Parameter(Variable(f'p{k}', t_, False), SPAN)); ctypes.append(ct)
        ident = {'NONE': Ident, 'DEFEAT': Ident.defeat, 'YOU': Ident.you}[flavor](name)
        modes = ExitMode.RETURN | ExitMode.LOOP | (ExitMode.DEFEAT if flavor == 'DEFEAT' else ExitMode(0))
        body_child = ABlock('BODY', modes, preemptive=False)
        body = CodeBlock((body_child,), SPAN, False, modes)
        decl = FuncDeclaration(SPAN, T.get(rt, E_), ident, tuple(params), body)
        csig = ConcreteSignature(ident, tuple(ctypes))
        cg.func_labels[csig] = asm.LabelRef(f'func_{name}_0')
        cg.stack = StackPoint(0)
        out = L.guarded_emit(lambda: cg.gen_func(csig, decl))
        if out is None: return res
        instrs, lines, _ = out; L.lines = lines
        # ---- compile-time contract: parameter slots are where the caller pushes them (RA word, then arguments in order)
        t0 = time.time(); problems = []
        off = w_
        if not (isinstance(cg.return_address, asm.Indirect) and cg.return_address.base == asm.State(cg.fp) and cg.return_address.offset == asm.IntLiteral(-w_)):
            problems.append('return address is not the word just below fp')
        body_info = [i for i in cg.v_children if i.node is body_child]
        scope = None
        for k, (p, ct) in enumerate(zip(params, ctypes)):
            acc = None
            # the parameter accessors were registered in local_vars during gen_func; they are gone after it returns, so read them off the child registration
            acc = L.param_accessors.get(p.var.name) if hasattr(L, 'param_accessors') else None
        # re-run to capture local_vars at body time: the abstract body records them
        if not body_info:
            problems.append('function body was not generated')
        else:
            info = body_info[0]
            lv = getattr(info, 'local_vars', None)
            off = w_
            for k, (p, ct) in enumerate(zip(params, ctypes)):
                a = lv.get(p.var.name) if lv is not None else None
                if isinstance(ct, ConcreteArrayType):
                    want_len, want_org = off + w_, off + 2 * w_
                    off += 2 * w_
                    ok = (a is not None and hasattr(a, 'origin') and a.length.offset == asm.IntLiteral(-want_len) and a.origin.offset == asm.IntLiteral(-want_org)
                          and a.type == ct)
                else:
                    size = 1 if ct.byte_sized else w_
                    off += size
                    ok = a is not None and isinstance(a, (asm.IndirectByte if size == 1 else asm.Indirect)) and a.offset == asm.IntLiteral(-off) and a.base == asm.State(cg.fp)
                if not ok: problems.append(f'parameter {k} ({p.var.type}) is not read from the slot the caller pushes it to (offset {off})')
            if not (info.stack == StackPoint(off)): problems.append(f'body starts with frame offset {info.stack.offset}, the pushed words are {off} bytes')
            want_def = asm.State(cg.defeat) if flavor == 'DEFEAT' else stdlib.halt
            if info.effective_defeat != want_def: problems.append('effective defeat of the body does not match the function flavour')
        L.add('PROTOCOL', 'failed' if problems else 'discharged', t0, ('C01', 'C08'),
              {'formula': 'callee reads RA at [fp-w] and parameter k at fp-(w+sizes up to k) in declaration order (what eval_func_call pushes); body offset = pushed bytes; defeat by flavour',
               'message': '; '.join(problems), 'replay': {'reproduced': True, 'how': 'observed on the real CodeGen state'}}, backend='harness')
        E = L.entry.regs
        guards = [i for i in instrs if isinstance(i, asm.Hgeu) and isinstance(i.right, asm.DynamicValue)]
        pushed = w_ + sum((2 * w_ if isinstance(ct, ConcreteArrayType) else (1 if ct.byte_sized else w_)) for ct in ctypes)
        if guards:
            need = L.term(guards[0].right._data)
        else:
            need = z3.IntVal(pushed)
            if unchecked:
                c.pre.append(E['ap'] + pushed <= E['fp'])      # unchecked builds are specified for runs whose stack suffices
        eng, leaves = L.run_engine(lines); L.last_leaves = leaves
        t1 = time.time(); problems = []
        if not unchecked and not guards: problems.append('checked build without a function entry guard')
        if guards and not smt.prove(c.all_pre(), need >= pushed).verdict == smt.PROVED:
            problems.append('the entry guard covers less than the RA word and the parameters')
        def P(l, f): return smt.prove(c.all_pre() + list(l.cond), f).verdict == smt.PROVED
        kinds = set()
        for l in leaves:
            if l.tag is not None: continue
            ev = [(e[1].node.name, e[2].abnormal) for e in l.st.trace if e[0] == 'child']
            if l.kind == 'term' and l.tgt == 'stack_overflow':
                kinds.add('overflow')
                if unchecked: problems.append('unchecked build raises stack_overflow')
                if ev: problems.append('body started before the stack check')
                if not P(l, E['fp'] - E['ap'] < need): problems.append('stack_overflow raised although the frame fits')
            elif ev and ev[0][0] == 'BODY':
                kinds.add('body')
                bev = [e for e in l.st.trace if e[0] == 'child'][0][2]
                if not unchecked and not P(l, E['ap'] + need <= E['fp']): problems.append('body runs although the frame does not fit (entry guard not exact)')
                if not (P(l, bev.pre.regs['fp'] == E['fp']) and P(l, bev.pre.regs['ap'] == E['ap']) and not bev.pre.stores):
                    problems.append('prologue changes fp/ap or memory before the body')
                if l.kind == 'exit': problems.append(f'control continues after the function body ({l.tgt}): runs off the end of the function')
            else:
                problems.append(f'unexpected leaf {l.kind} {l.tgt} {ev}')
        if 'body' not in kinds: problems.append('vacuity: body never reached')
        if not unchecked and 'overflow' not in kinds: problems.append('vacuity: no stack_overflow leaf')
        L.add('ENTRY-GUARD+NO-FALLTHROUGH', 'failed' if problems else 'discharged', t1, ('C04', 'C05', 'C16', 'C15') if unchecked else ('C04', 'C05', 'C16'),
              {'formula': 'checked: stack_overflow <=> fp - ap < max static frame of the function (Tracker); body entered with fp, ap, memory untouched; '
                          'nothing is executed after a body that cannot fall through', 'message': '; '.join(sorted(set(problems))), 'leaves': len(leaves)})
        L.nobot(leaves, ('C03',))
    finally:
        L.close()
    return res


SIGS = [('f', ('int',), 'int', 'NONE'), ('g', ('byte', 'int'), 'byte', 'NONE'), ('p', (), 'empty', 'NONE'), ('q', ('int[]', 'int'), 'int', 'NONE'),
        ('r', ('const byte[]',), 'empty', 'NONE'), ('s2', ('string', 'bool', 'byte'), 'int', 'NONE'), ('d', ('int',), 'empty', 'DEFEAT'), ('y', ('int',), 'empty', 'YOU')]


def run_gen_funcs(w, unchecked):
    res = []
    for sig in SIGS:
        res += run_gen_func(sig, w, unchecked)
    return res


def tasks(tier):
    out = []
    P = ('C01', 'C02', 'C03', 'C04', 'C05', 'C08', 'C10', 'C15', 'C16', 'C17')
    for w in ((2,) if tier == 'quick' else (2, 3, 4, 8)):
        for unchecked in ((False,) if tier == 'quick' else (False, True)):
            out.append(task(MOD, 'run_calls', P, label=f'call/all/w{w}/u{int(unchecked)}', w=w, unchecked=unchecked, tier=tier, cost=25))
            for virtual in (False, True):
                out.append(task(MOD, 'run_defeat_calls', P, label=f'call/defeat/v{int(virtual)}/w{w}/u{int(unchecked)}', virtual=virtual, w=w, unchecked=unchecked, cost=3))
        for unchecked in (False, True):
            out.append(task(MOD, 'run_gen_funcs', P, label=f'func/all/w{w}/u{int(unchecked)}', w=w, unchecked=unchecked, cost=8))
    if tier == 'quick':
        out.append(task(MOD, 'run_calls', P, label='call/all/w2/u1', w=2, unchecked=True, tier=tier, cost=25))      # C15: calls and builtins are not run-time checks
        out.append(task(MOD, 'run_calls', P, label='call/all/w3/u0', w=3, unchecked=False, tier=tier, cost=25))
        out.append(task(MOD, 'run_gen_funcs', P, label='func/all/w3/u0', w=3, unchecked=False, cost=8))
    return out
