"""Guard lemmas with exact (biconditional) contracts (C04, C05, C08, C15): dynamic array allocation (ArrayInitializer).

Resource-level specification (DESIGN.md section 6, I-headroom).  With n the run-time length, size(n) the byte size of the array,
R = Mq - s the static frame bytes the rest of the block still needs (Mq: the Tracker checkpoint of this allocation, as finalised
by the real Tracker; s: static array bytes already included in ap):

    checked build:   stack_overflow fault   <=>   n < 0  or  n > max_length(el)  or  size(n) > fp - ap - R
    otherwise:       origin slot = old ap, length slot = n, ap' = ap + size(n), fp - ap' >= R   (I-headroom re-established)
"""
from __future__ import annotations
import time, itertools
import z3
from hidv.oblig import task
from hidv.harness.lemma import Lemma
from hidv.harness.vcg import SPAN
from hidv import smt
from hidc import ast
from hidc.ast import DataType, ArrayType
from hidc.codegen import asm
from hidc.codegen.generator import ArrayRef
from contracts import isa

MOD = 'contracts.lem_guard'
I, B, Y, S = DataType.INT, DataType.BOOL, DataType.BYTE, DataType.STRING
GEN = ['hidc.codegen.generator.CodeGen.eval_expr', 'hidc.codegen.generator.CodeGen.push_expr', 'hidc.codegen.generator.CodeGen.get_array_size',
       'hidc.codegen.generator.CodeGen.array_size', 'hidc.codegen.generator.CodeGen.max_length', 'hidc.codegen.generator.CodeGen.max_signed',
       'hidc.codegen.generator.CodeGen.frame_size', 'hidc.codegen.generator.CodeGen.create_new_stack_array', 'hidc.codegen.generator.CodeGen.goto',
       'hidc.codegen.tracker.Tracker.add', 'hidc.codegen.tracker.Tracker.update', 'hidc.codegen.tracker.Tracker.pop_level',
       'hidc.codegen.asm.DynamicValue.finalize', 'hidc.codegen.asm.DynamicValue.map', 'hidc.codegen.asm.DynamicValue.__bytes__']


def run_initializer(el, w, unchecked):
    el = {'int': I, 'byte': Y, 'bool': B, 'string': S}[el]
    res = []
    for lsh in ('opaque', 'local', 'glob', 'literal', 'narrowed'):
        L = Lemma(f'guard/array-initializer/{el}/len={lsh}/w{w}/{"unchecked" if unchecked else "checked"}', w, unchecked)
        L.functions.update(GEN)
        try:
            res += one_initializer(L, el, lsh, w, unchecked)
        finally:
            L.close()
    return res


def one_initializer(L, el, lsh, w, unchecked):
    cg = L.cg; c = L.ctx; E = L.entry.regs
    P_SIM = ('C04', 'C05', 'C08') + (('C15',) if unchecked else ())
    if lsh == 'literal':
        # any literal of the signed word range: a negative constant length is accepted by the typechecker and must fault at run time like a
        # negative run-time length (C05: "a negative or unrepresentably large dynamic array length")
        n_lit = L.sym('Klen', -(1 << (L.bits - 1)), (1 << (L.bits - 1)) - 1)
        n_expr = ast.IntValue(n_lit, SPAN)
    elif lsh == 'narrowed':
        # `(p + q) is byte` as a length: the narrowing must be applied before the value is used as an int
        n_expr = ast.ByteToInt(ast.IntToByte(ast.Add(None, L.opaque('np'), L.opaque('nq'))))
    else:
        n_expr = getattr(L, lsh)('n', I)
    e = ast.ArrayInitializer(ArrayType(el, const=False), n_expr)
    s_entry = L.entry_stack.static_array_size
    out = L.guarded_emit(lambda: cg.eval_expr(cg.r1, e, True))
    if out is None:
        return L.results
    instrs, lines, bubble = out
    L.lines = lines
    t0 = time.time(); book = []
    if not isinstance(bubble.value, ArrayRef): book.append('result is not an array reference')
    elif bubble.cur.array_num != L.entry_stack.array_num + 1: book.append('array_num not incremented')
    if not (cg.stack == bubble.cur): book.append('self.stack is not bubble.cur')
    if not (bubble.cur.static_array_size == L.entry_stack.static_array_size): book.append('a dynamic array must not change static_array_size')
    L.add('BOOK', 'failed' if book else 'discharged', t0, P_SIM, {'message': '; '.join(book), 'formula': 'bookkeeping of a dynamically sized array',
          'replay': {'reproduced': True, 'how': 'observed on the value returned by the real method'}}, backend='harness')
    if book:
        return L.results
    # the checkpoint the method itself added (after the harness one): the last DynamicValue finalised
    dyn = [i for i in instrs if isinstance(i, asm.Sub) and isinstance(i.right, asm.DynamicValue)]
    R = None
    if dyn:
        R = L.term(dyn[0].right._data)          # already includes the `- cur_static_array` map
    eng, leaves = L.run_engine(lines)
    L.last_leaves = leaves
    fp, ap = E['fp'], E['ap']
    size_el = 1 if el.byte_sized else w
    maxlen = ((1 << (L.bits - 1)) - 1) // size_el
    if el == B:
        maxlen -= 7          # "unrepresentably large": rounding up to whole bytes, (n + 7) >> 3, must not wrap either
    t1 = time.time(); problems = []
    M = L.M

    def P(l, f):
        return smt.prove(c.all_pre() + l.cond, f).verdict == smt.PROVED
    normal = [l for l in leaves if l.kind == 'exit' and l.tgt == '<end>' and l.tag is None]
    faults = [l for l in leaves if l.kind == 'term' and l.tgt == 'stack_overflow']
    others = [l for l in leaves if l not in normal and l not in faults and l.tag is None and not (l.kind == 'term' and l.tgt == 'child')]
    if others: problems.append(f'unexpected leaves: {[(l.kind, l.tgt) for l in others]}')
    if not normal: problems.append('vacuity: no normal leaf')
    if not unchecked and not faults: problems.append('vacuity: no stack_overflow leaf')
    # value of the length at run time: from the trace (opaque) or the variable / literal
    for l in normal + faults:
        n = length_value(L, l, lsh, n_expr)
        sn = isa.sx(n, M)
        nbytes = (sn + 7) / 8 if el == B else sn * size_el
        if R is None and not unchecked:
            problems.append('no overflow guard with a Tracker checkpoint was emitted'); break
        fits = z3.And(sn >= 0, sn <= maxlen, nbytes <= fp - ap - (R if R is not None else 0))
        if l in faults:
            if not P(l, z3.Not(fits)): problems.append('stack_overflow raised although the length is sane and the array fits')
            if [e_ for e_ in l.st.trace if e_[0] == 'out']: problems.append('output before the fault')
            if l.st.regs['ap'] is not ap and not P(l, l.st.regs['ap'] == ap): problems.append('ap modified before the fault')
        else:
            if not unchecked and not P(l, fits):
                problems.append('allocation proceeds although the length is negative / too large / does not fit (guard not exact)')
            pre_ok = [] if not unchecked else [fits]      # unchecked: specified on fault-free runs only
            def PP(f): return smt.prove(c.all_pre() + l.cond + pre_ok, f).verdict == smt.PROVED
            ov, _ = L.read_accessor(bubble.value.origin, l); lv, _ = L.read_accessor(bubble.value.length, l)
            if not PP(ov == ap): problems.append('origin slot does not hold the old top of the array stack')
            if not PP(lv == n): problems.append('length slot does not hold the requested length')
            if not PP(l.st.regs['ap'] == ap + nbytes): problems.append('ap is not advanced by exactly size(n)')
            if not PP(l.st.regs['fp'] == fp): problems.append('fp changed')
            if R is not None and not PP(l.st.regs['ap'] + R <= fp): problems.append('I-headroom not re-established after the allocation')
            if not PP(z3.And(l.st.regs['defeat'] == E['defeat'], l.st.regs['try_fp'] == E['try_fp'])): problems.append('defeat/try_fp changed')
    L.add('GUARD-EXACT', 'failed' if problems else 'discharged', t1, P_SIM,
          {'formula': 'fault <=> n<0 or n>max_length or size(n) > fp-ap-R; else origin=old ap, length=n, ap\'=ap+size(n), fp-ap\'>=R', 'message': '; '.join(sorted(set(problems))),
           'replay': replay_initializer(el, w) if problems and not unchecked else {'reproduced': None}})
    if not unchecked:
        L.prove_all('SAFE', eng.safety, ('C04',))
    L.nobot(leaves, ('C03',))
    return L.results


def length_value(L, leaf, lsh, n_expr):
    if lsh == 'narrowed':
        vals = [e[2].value for e in leaf.st.trace if e[0] == 'child' and e[2].value is not None]
        return isa.arith('add', vals[0], vals[1], L.w, ()) % 256
    if lsh == 'opaque':
        for e in leaf.st.trace:
            if e[0] == 'child' and e[2].value is not None:
                return e[2].value
    if lsh == 'literal':
        return L.word(n_expr.data)
    a, size = L.var_address(n_expr.var)
    v = None
    for k in range(size):
        b = z3.Select(L.entry.mem, a + k); L.ctx.facts += [b >= 0, b <= 255]
        v = b if v is None else v + (1 << (8 * k)) * b
    return v


def replay_initializer(el, w):
    """whole program: a negative / huge length must fault, and an accepted array must not let an in-bounds store corrupt its neighbour"""
    from hidv.sphinx import svm
    from hidc.errors import CompilerError
    t = {I: 'int', Y: 'byte', B: 'bool', S: 'string'}[el]
    val = {I: '7', Y: "'x'", B: 'true', S: '"s"'}[el]
    src = (f'empty @is_you(int n, int i) {{ byte[] guard = [1,2,3,4]; {t} a[n]; byte[] after = [5,6,7,8]; a[i] = {val}; '
           'for (int k = 0; k < 4; k += 1) { write((guard[k] + 48) is byte); write((after[k] + 48) is byte); } }')
    bad = []
    for n, i in ((-1, 3), (-7, 0), (-8, 0), (-1, 0)):
        try:
            res, vm = svm.run_hid(src, args=[str(n), str(i)], word_size=w, stack_size=60)
        except CompilerError as e:
            return {'reproduced': None, 'how': f'witness did not compile: {e}'}
        if not (res == 'error' and vm.flags[:1] == ['stack_overflow']):
            bad.append({'n': n, 'i': i, 'end': res, 'flags': vm.flags, 'output': vm.out.decode('latin1')})
    # the same with a compile-time constant length
    for n in (-1, -7, -8, -(1 << (8 * w - 1)) + 2):
        src_c = (f'empty @is_you(int i) {{ byte[] guard = [1,2,3,4]; {t} a[{n}]; byte[] after = [5,6,7,8]; a[i] = {val}; '
                 'for (int k = 0; k < 4; k += 1) { write((guard[k] + 48) is byte); write((after[k] + 48) is byte); } }')
        try:
            res, vm = svm.run_hid(src_c, args=['3'], word_size=w, stack_size=60)
            if not (res == 'error' and vm.flags[:1] == ['stack_overflow']):
                bad.append({'constant_length': n, 'i': 3, 'end': res, 'flags': vm.flags, 'output': vm.out.decode('latin1'), 'program': src_c})
        except CompilerError:
            pass          # rejecting a negative constant length at compile time would be fine too
    return {'reproduced': bool(bad), 'how': 'hidc-compiled program on hidv.sphinx.svm: a negative dynamic length must raise stack_overflow', 'program': src,
            'observed': bad[:3] or 'all negative lengths fault'}


def tasks(tier):
    out = []
    P = ('C03', 'C04', 'C05', 'C08', 'C10', 'C15')
    for w in ((2,) if tier == 'quick' else (2, 3, 4, 8)):
        for unchecked in (False, True):
            for el in ('int', 'byte', 'bool', 'string'):
                out.append(task(MOD, 'run_initializer', P, label=f'guard/array-initializer/{el}/w{w}/u{int(unchecked)}', cost=5, el=el, w=w, unchecked=unchecked))
    if tier == 'quick':
        # a word size that is not a power of two: the size computation scales by the word size
        for el in ('int', 'string', 'bool'):
            out.append(task(MOD, 'run_initializer', P, label=f'guard/array-initializer/{el}/w3/u0', cost=5, el=el, w=3, unchecked=False))
    return out
