"""Simulation lemmas for statements and blocks: the real CodeGen.gen_block / gen_stmts on abstract children
(C01 control flow, C03, C04, C08 scope exits, C09 branch position, C16 exit modes, C10).

Abstract block children carry *all* exit modes (a superset of what any real child can do), so one run of the engine
covers every child; the C16 obligation then enumerates all mode-set combinations of the children (finite: complete),
recomputes the *real* exit_modes() of the construct for each, and checks that the leaves the emitted code can reach
with children restricted to those modes are all allowed by it.
"""
from __future__ import annotations
import itertools, time
from hidv.oblig import task, Result, DISCHARGED, FAILED, UNDECIDED
from hidv.harness.lemma import Lemma
from hidv.harness.vcg import ABlock, AExpr, make_env, SPAN
from hidc import ast
from hidc.ast import DataType, ExitMode

MOD = 'contracts.lem_block'
I, B, Y = DataType.INT, DataType.BOOL, DataType.BYTE
ALL = ExitMode.NONE | ExitMode.BREAK | ExitMode.LOOP | ExitMode.DEFEAT | ExitMode.RETURN
GEN = ['hidc.codegen.generator.CodeGen.gen_block', 'hidc.codegen.generator.CodeGen.gen_stmts', 'hidc.codegen.generator.CodeGen.bool_expr_branch',
       'hidc.codegen.generator.CodeGen.goto', 'hidc.codegen.generator.CodeGen.is_goto', 'hidc.codegen.generator.CodeGen.add_label',
       'hidc.codegen.generator.CodeGen.pop', 'hidc.codegen.generator.CodeGen.reset_ap', 'hidc.codegen.generator.halt_inversion',
       'hidc.codegen.generator.compare_map', 'hidc.codegen.asm.lines']

CONDS = {
    'opaque': lambda L: L.opaque('c', B),
    'local': lambda L: L.local('c', B),
    'lt': lambda L: ast.Lt(None, L.opaque('a'), L.opaque('b')),
    'eq-lit': lambda L: ast.Eq(None, L.opaque('a'), L.literal('k')),
    'ge-local': lambda L: ast.Ge(None, L.local('a'), L.glob('b')),
    'not': lambda L: ast.Not(None, L.opaque('c', B)),
    'not-le': lambda L: ast.Not(None, ast.Le(None, L.opaque('a'), L.opaque('b'))),
    'and': lambda L: ast.And(None, L.opaque('c', B), ast.Gt(None, L.opaque('a'), L.opaque('b'))),
    'or': lambda L: ast.Or(None, ast.Ne(None, L.opaque('a'), L.opaque('b')), L.opaque('c', B)),
    'and-or': lambda L: ast.And(None, ast.Or(None, L.opaque('c', B), L.opaque('d', B)), L.opaque('e', B)),
    'or-not-and': lambda L: ast.Or(None, ast.Not(None, ast.And(None, L.opaque('c', B), L.opaque('d', B))), L.local('e', B)),
    'true': lambda L: ast.BoolValue(True, None),
    'false': lambda L: ast.BoolValue(False, None),
    'int-to-bool': lambda L: ast.IntToBool(L.opaque('a')),
    # the cast chains Expression.cast builds for `x is bool` / truthiness of non-bool conditions
    'byte-is-bool': lambda L: ast.IntToBool(ast.ByteToInt(L.opaque('a', Y))),
    'int-is-byte-is-bool': lambda L: ast.IntToBool(ast.ByteToInt(ast.IntToByte(L.opaque('a')))),
    'local-int-is-byte-is-bool': lambda L: ast.IntToBool(ast.ByteToInt(ast.IntToByte(L.local('a')))),
    'not-int-is-byte-is-bool': lambda L: ast.Not(None, ast.IntToBool(ast.ByteToInt(ast.IntToByte(L.opaque('a'))))),
    'bool-is-int-is-bool': lambda L: ast.IntToBool(ast.ByteToInt(ast.BoolToByte(L.opaque('c', B)))),
    'string-is-bool': lambda L: ast.IntToBool(ast.LengthLookup(L.string_operand('s', 'opaque'), SPAN.end)),
    'sum-is-byte-is-bool': lambda L: ast.IntToBool(ast.ByteToInt(ast.IntToByte(ast.Add(None, L.opaque('a'), L.opaque('b'))))),
}


def props(unchecked, ctx='plain'):
    sim = ('C01', 'C09') + (('C15',) if unchecked else ()) + (('C02',) if ctx != 'plain' else ())
    return {'SIM': sim, 'INV': ('C08',) + (('C02', 'C03') if ctx != 'plain' else ()), 'NOBOT': ('C03',), 'SAFE': ('C04',), 'NOERR': ('C10',), 'MODES': ('C16',)}


def in_try_stop_body(L):
    """the construct sits directly in a try/stop body of a you-function: the effective defeat is the variable word, the function's own defeat is `halt`"""
    from hidc.codegen import stdlib
    L.cg.func_defeat = stdlib.halt; L.cg.needs_variable_defeat = True
    L.func_defeat_value = L.ctx.label('halt')


def run_if(cond, w, unchecked, ctx='plain'):
    L = Lemma(f'block/if/{cond}/{"" if ctx == "plain" else ctx + "/"}w{w}/{"unchecked" if unchecked else "checked"}', w, unchecked, may_defeat=False, virtual_defeat=ctx != 'plain')
    L.functions.update(GEN)
    try:
        if ctx == 'try-stop-body': in_try_stop_body(L)
        L.enclosing_loop()
        c = CONDS[cond](L)
        blk = ast.IfBlock(None, ABlock('T', ALL, may_continue=True), c, ABlock('E', ALL, may_continue=True))
        L.check_block(blk, props(unchecked, ctx), [('exit', '<end>'), ('exit', 'break_ext'), ('exit', 'continue_ext')] if cond not in ('true', 'false') else [('exit', '<end>')])
        modes_enum(L, lambda mt, me: ast.IfBlock(None, ABlock('T', mt), c, ABlock('E', me)), ('T', 'E'))
    finally:
        L.close()
    return L.results


MODE_SETS = {'all': None, 'none': ExitMode.NONE, 'break': ExitMode.BREAK, 'loop': ExitMode.LOOP, 'defeat': ExitMode.DEFEAT, 'return': ExitMode.RETURN,
             'none-return': ExitMode.NONE | ExitMode.RETURN, 'break-return': ExitMode.BREAK | ExitMode.RETURN, 'none-break': ExitMode.NONE | ExitMode.BREAK}


def run_loop(cond, w, unchecked, ctx='plain', body_modes='all'):
    # body_modes: the generator may consult the exit modes of the body when it emits the loop; `continue` is never part of them, so a body whose
    # modes are e.g. exactly {RETURN} can still continue -- the code is emitted (and checked) for each of these mode sets, not only for "anything"
    L = Lemma(f'block/loop/{cond}/{"" if ctx == "plain" else ctx + "/"}{"" if body_modes == "all" else "body=" + body_modes + "/"}w{w}/{"unchecked" if unchecked else "checked"}',
              w, unchecked, virtual_defeat=ctx != 'plain')
    L.functions.update(GEN)
    try:
        if ctx == 'try-stop-body': in_try_stop_body(L)
        if body_modes != 'all': L.function_context()
        c = CONDS[cond](L)
        body = ABlock('B', ALL if body_modes == 'all' else MODE_SETS[body_modes], may_continue=True)
        cont = ABlock('C', ExitMode.NONE | ExitMode.LOOP | ExitMode.DEFEAT)
        blk = ast.LoopBlock(None, body, c, cont)
        cov = [('exit', '<end>')]
        if cond == 'true' and body_modes != 'all' and ExitMode.BREAK not in MODE_SETS[body_modes]:
            cov = []          # a constant-true loop whose body cannot break is left only by return / defeat / a terminal state
        L.check_block(blk, props(unchecked, ctx), cov)
        if body_modes != 'all':
            return L.results
        modes_enum(L, lambda mb, mc: ast.LoopBlock(None, ABlock('B', mb), c, ABlock('C', mc & ~(ExitMode.BREAK | ExitMode.RETURN))), ('B', 'C'))
    finally:
        L.close()
    return L.results


def run_codeblock(variant, w, unchecked):
    L = Lemma(f'block/code/{variant}/w{w}/{"unchecked" if unchecked else "checked"}', w, unchecked)
    L.functions.update(GEN)
    try:
        L.enclosing_loop()
        env = make_env()
        if variant == 'expr-block-expr':
            stmts = (L.opaque('s1'), ABlock('M', ALL, may_continue=True), L.opaque('s2', B))
        elif variant == 'decl-block':
            stmts = (ast.Declaration(ast.Variable('x', I, False), L.opaque('i'), SPAN.start), ABlock('M', ALL, may_continue=True),
                     ast.Declaration(ast.Variable('y', Y, False), L.opaque('j', Y), SPAN.start), L.opaque('s2'))
        elif variant == 'nested':
            inner = ast.CodeBlock((ast.Declaration(ast.Variable('z', I, False), L.opaque('i'), SPAN.start), ABlock('N', ALL, may_continue=True)), None, False).evaluate(env)
            stmts = (L.opaque('s1'), inner, L.opaque('s2'))
        elif variant.startswith('arrays-'):
            from hidc.ast import ArrayType
            def lit(el, n, tag):
                return ast.ArrayLiteral(tuple(L.opaque(f'e{tag}{k}', el) for k in range(n)), SPAN, ArrayType(el, const=False), True)
            def dyn(el, tag):
                return ast.ArrayInitializer(ArrayType(el, False), L.opaque('n' + tag))
            def decl(name, el, init):
                return ast.Declaration(ast.Variable(name, ArrayType(el, False), False), init, SPAN.start)
            M = ABlock('M', ALL, may_continue=True)
            if variant == 'arrays-literal':
                stmts = (decl('a', I, lit(I, 2, 'a')), M, L.opaque('s2'))
            elif variant == 'arrays-dynamic':
                stmts = (decl('a', I, dyn(I, 'a')), M, L.opaque('s2'))
            elif variant == 'arrays-bool-dynamic':
                stmts = (L.opaque('s1'), decl('a', B, dyn(B, 'a')), M)
            elif variant == 'arrays-literal-dynamic':
                stmts = (decl('a', Y, lit(Y, 3, 'a')), decl('b', I, dyn(I, 'b')), M, L.opaque('s2'))
            elif variant == 'arrays-dynamic-literal':
                stmts = (decl('b', Y, dyn(Y, 'b')), ast.Declaration(ast.Variable('x', I, False), L.opaque('i'), SPAN.start), decl('a', I, lit(I, 2, 'a')), M)
            elif variant == 'arrays-nested':
                inner = ast.CodeBlock((decl('c', I, dyn(I, 'c')), ABlock('N', ALL, may_continue=True)), None, False).evaluate(env)
                stmts = (decl('a', I, lit(I, 1, 'a')), inner, decl('d', Y, dyn(Y, 'd')), M)
            else:
                raise ValueError(variant)
        elif variant == 'noreturn-tail':
            stmts = (L.opaque('s1'), ABlock('M', ExitMode.RETURN | ExitMode.LOOP))
        elif variant in ('seq-2', 'seq-3', 'seq-break', 'seq-return'):
            # C16: sequential composition of exit modes in CodeBlock.evaluate, for all mode sets of the block statements
            names = {'seq-2': ('M1', 'M2'), 'seq-3': ('M1', 'M2', 'M3'), 'seq-break': ('M1',), 'seq-return': ('M1',)}[variant]
            tail = {'seq-break': (ast.BreakStatement(SPAN),), 'seq-return': (ast.ReturnStatement(SPAN, None),)}.get(variant, ())
            if variant == 'seq-return': L.function_context()
            stmts = tuple(ABlock(n_, ALL, may_continue=False) for n_ in names) + tail
        else:
            raise ValueError(variant)
        if variant == 'seq-return': env = env.new_child(DataType.EMPTY)
        blk = ast.CodeBlock(stmts, None, False).evaluate(env)
        cov = [('exit', '<end>')]
        if variant == 'noreturn-tail': cov = [('child-return', None)]
        if variant == 'seq-break': cov = [('exit', 'break_ext')] if False else []
        if variant == 'seq-return': cov = [('ijump', None)]
        L.check_block(blk, props(unchecked), cov)
        if variant.startswith('seq-'):
            names = {'seq-2': ('M1', 'M2'), 'seq-3': ('M1', 'M2', 'M3'), 'seq-break': ('M1',), 'seq-return': ('M1',)}[variant]
            tail = {'seq-break': (ast.BreakStatement(SPAN),), 'seq-return': (ast.ReturnStatement(SPAN, None),)}.get(variant, ())
            modes_enum(L, lambda *ms: ast.CodeBlock(tuple(ABlock(n_, m_) for n_, m_ in zip(names, ms)) + tail, None, False).evaluate(make_env().new_child(DataType.EMPTY)), names)
    finally:
        L.close()
    return L.results


def child_modes_used(leaf, names):
    """which exit mode each abstract child took on this leaf (None: not executed)"""
    used = {}
    for e in leaf.st.trace:
        if e[0] == 'child' and e[1].kind == 'block':
            ab = e[2].abnormal
            m = {None: ExitMode.NONE, 'return': ExitMode.RETURN, 'break': ExitMode.BREAK, 'defeat': ExitMode.DEFEAT, 'term': ExitMode.LOOP,
                 'continue': 'continue'}[ab]
            used.setdefault(e[1].node.name, set()).add(m)
    return used


def replay_modes(w=2):
    """whole programs in which code after a construct is reachable only through one particular exit (break out of a constant-true loop past a later
    block statement, handler of a try, else branch): it must be kept, and a function that can run off its end must be rejected"""
    from hidv.sphinx import svm
    from hidc.errors import CompilerError
    progs = [
        ('int f(int n) { while (true) { if (n % 7 == 0) { break; } if (n > 100) { n = 0; } n += 1; } return n; }\nempty @is_you() { write(f(10)); write(" "); write(f(15)); }', b'14 21', True),
        ('int f(int n) { while (true) { if (n > 3) { return n; } { n += 1; } } }\nempty @is_you() { write(f(1)); }', b'4', True),
        ('int f(int n) { for (;;) { if (n > 3) { break; } if (n > 100) { n = 0; } else { n += 1; } } return n * 2; }\nempty @is_you() { write(f(1)); }', b'8', True),
        ('int f(int n) { while (true) { if (n > 3) { break; } { n += 1; } } }\nempty @is_you() { write(f(1)); }', None, False),
        ('int f(int n) { if (n > 3) { return 1; } { n += 1; } }\nempty @is_you() { write(f(1)); }', None, False),
        ('empty g(int n) { while (true) { if (n > 3) { break; } { n += 1; } } }\nempty @is_you() { g(1); write("after"); }', b'after', True),
    ]
    obs = []
    for src, want, accept in progs:
        try:
            res, vm = svm.run_hid(src, word_size=w)
            if not accept: obs.append({'program': src, 'problem': 'accepted although control can run off the end of a value-returning function'})
            elif res != 'win' or vm.out != want: obs.append({'program': src, 'end': res, 'printed': vm.out.decode('latin1'), 'documented': want.decode()})
        except CompilerError as e:
            if accept: obs.append({'program': src, 'problem': f'rejected: {e}'})
        except Exception as e:
            obs.append({'program': src, 'raises': repr(e)})
    return {'reproduced': bool(obs), 'how': 'hidc-compiled programs on hidv.sphinx.svm / accept-reject by the real typechecker', 'observed': obs[:3] or 'the sample programs behave as documented'}


def modes_enum(L, build, names, silent_defeat=()):
    """C16: for every combination of child mode sets, leaves reachable with children restricted to those modes are allowed by the real exit_modes().
    silent_defeat: children that may reach defeat although DEFEAT is not in their mode set (defeat raised inside an expression)"""
    t0 = time.time()
    leaves = getattr(L, 'last_leaves', None)
    if leaves is None:
        return
    subsets = [ExitMode(0)]
    flags = [ExitMode.NONE, ExitMode.BREAK, ExitMode.LOOP, ExitMode.DEFEAT, ExitMode.RETURN]
    allsets = []
    for r in range(1, 6):
        for comb in itertools.combinations(flags, r):
            m = comb[0]
            for x in comb[1:]: m |= x
            allsets.append(m)
    bad = []; n = 0
    for ms in itertools.product(allsets, repeat=len(names)):
        try:
            blk = build(*ms)
            modes = blk.exit_modes()
        except Exception as e:
            bad.append({'child_modes': [repr(m) for m in ms], 'exit_modes_raises': repr(e)}); continue
        allowed = dict(zip(names, ms))
        for l in leaves:
            if l.tag is not None: continue
            used = child_modes_used(l, names)
            if any(m != 'continue' and m not in allowed[nm] and not (m == ExitMode.DEFEAT and nm in silent_defeat) for nm, s in used.items() for m in s):
                continue          # this leaf needs a child behaviour outside the combination
            n += 1
            # The property (C16) needs the two modes that decide whether code *after* the construct can be reached to be
            # over-approximated: NONE (falls through) and BREAK (leaves the enclosing loop, which turns it into NONE there).
            # RETURN/DEFEAT/LOOP are consumed nowhere in a way that affects reachability (LoopBlock.exit_modes e.g. ignores
            # the modes of a `for` update statement: a DEFEAT that is not reported; harmless, recorded in DESIGN.md).
            kind = None
            if l.kind == 'exit' and l.tgt == '<end>': kind = ExitMode.NONE
            elif l.kind == 'exit' and l.tgt == L.exit_labels.get('break'): kind = ExitMode.BREAK
            if kind is not None and kind not in modes:
                bad.append({'child_modes': [repr(m) for m in ms], 'exit_modes': repr(modes), 'emitted_code_can': f'{l.kind} {l.tgt}'})
                break
        if len(bad) > 4: break
    # C07: "missing return" is decided from these exit modes; C08: the generator drops a block's array release when the modes say it cannot
    # fall through; C14: a loop with a constant condition must have the exits of its run-time twin
    L.add('MODES-ENUM', FAILED if bad else DISCHARGED, t0, ('C16', 'C07', 'C08', 'C14'),
          {**({'replay': replay_modes(L.w)} if bad else {}), 'formula': 'forall child mode sets (31^k): kinds of exit of the emitted code are within the real exit_modes() of the construct',
           'domain': len(allsets) ** len(names), 'checked_leaf_instances': n, 'model': bad[:4],
           'functions': sorted(L.functions | {'hidc.ast.blocks.IfBlock.exit_modes', 'hidc.ast.blocks.LoopBlock.exit_modes', 'hidc.ast.blocks.ExitMode.replace'})},
          backend='enum+sphinxsem')


def ob_evaluate_structure():
    """Block.evaluate is structure preserving: for every block class and every exit-mode set of its (abstract) children, the typechecked block is a
    block of the same class around the same children (conditions cast to bool); nothing is simplified away on the strength of exit modes
    (exit modes under-report defeat raised inside expressions, so dropping a handler or a construct because of them changes behaviour)"""
    import itertools, time as _t
    from hidv.oblig import Result, DISCHARGED, FAILED
    from hidv.harness.vcg import AExpr
    t0 = _t.time(); bad = []; n = 0
    flags = [ExitMode.NONE, ExitMode.BREAK, ExitMode.LOOP, ExitMode.DEFEAT, ExitMode.RETURN]
    allsets = []
    for r in range(1, 6):
        for comb in itertools.combinations(flags, r):
            m = comb[0]
            for x in comb[1:]: m |= x
            allsets.append(m)
    env = make_env().new_child(DataType.EMPTY)
    cexpr = AExpr('c', B)
    def chk(name, blk, want_cls, children):
        nonlocal n
        n += 1
        try:
            got = blk.evaluate(env)
        except Exception as e:
            bad.append({'block': name, 'raises': repr(e)}); return
        if type(got) is not want_cls:
            bad.append({'block': name, 'evaluate_returns': type(got).__name__, 'documented': want_cls.__name__}); return
        for attr, child in children.items():
            node = got
            for part in attr.split('.'): node = getattr(node, part)
            if node is not child:
                bad.append({'block': name, 'child': attr, 'evaluate_returns': repr(node)[:80], 'documented': repr(child)}); return
    for m1 in allsets:
        b1 = ABlock('X', m1)
        chk(f'preempt {{X:{m1!r}}}', ast.PreemptBlock(SPAN.start, b1), ast.PreemptBlock, {'body': b1})
        chk(f'while (c) {{X:{m1!r}}}', ast.LoopBlock.while_loop(SPAN.start, b1, cexpr), ast.LoopBlock, {'body': b1})
        for m2 in allsets:
            b2 = ABlock('Y', m2)
            chk(f'if (c) {{X:{m1!r}}} else {{Y:{m2!r}}}', ast.IfBlock(SPAN.start, b1, cexpr, b2), ast.IfBlock, {'body': b1, 'else_block': b2})
            chk(f'try {{X:{m1!r}}} undo {{Y:{m2!r}}}', ast.TryBlock(SPAN.start, b1, ast.UndoBlock(SPAN.start, b2)), ast.TryBlock, {'body': b1, 'handler.body': b2})
            chk(f'try {{X:{m1!r}}} stop {{Y:{m2!r}}}', ast.TryBlock(SPAN.start, b1, ast.StopBlock(SPAN.start, b2)), ast.TryBlock, {'body': b1, 'handler.body': b2})
        if len(bad) > 6: break
    det = {'formula': 'forall child mode sets: type(block.evaluate()) is type(block) and the children are the evaluated children', 'domain': n,
           'functions': ['hidc.ast.blocks.TryBlock.evaluate', 'hidc.ast.blocks.ControlBlock.evaluate', 'hidc.ast.blocks.IfBlock.evaluate', 'hidc.ast.blocks.LoopBlock.evaluate']}
    if bad:
        try:
            from contracts import witness
            rep = witness.replay_time_cached(2, False)
        except Exception as e:
            rep = {'reproduced': None, 'how': repr(e)}
        if not rep.get('reproduced'):
            rep = {'reproduced': True, 'how': 'real evaluate() on the block', 'observed': bad[0]}
        det.update(model=bad[:5], replay=rep)
    return [Result('block/evaluate/structure-preserving', FAILED if bad else DISCHARGED, 'enum', _t.time() - t0, (), det)]


def tasks(tier):
    out = [task(MOD, 'ob_evaluate_structure', ('C01', 'C02', 'C03', 'C16'), label='block/evaluate-structure', cost=2)]
    P = ('C01', 'C03', 'C04', 'C07', 'C08', 'C09', 'C10', 'C14', 'C15', 'C16')
    for w in ((2,) if tier == 'quick' else (2, 3, 4, 8)):
        for unchecked in ((False,) if tier == 'quick' else (False, True)):
            for cond in CONDS:
                out.append(task(MOD, 'run_if', P, label=f'block/if/{cond}/w{w}/u{int(unchecked)}', cost=6, cond=cond, w=w, unchecked=unchecked))
                out.append(task(MOD, 'run_loop', P, label=f'block/loop/{cond}/w{w}/u{int(unchecked)}', cost=6, cond=cond, w=w, unchecked=unchecked))
            arrays = ('arrays-literal', 'arrays-dynamic', 'arrays-bool-dynamic', 'arrays-literal-dynamic', 'arrays-dynamic-literal', 'arrays-nested')
            for bm in MODE_SETS:
                if bm == 'all': continue
                for cond in ('opaque', 'true') if tier == 'quick' else ('opaque', 'true', 'lt'):
                    out.append(task(MOD, 'run_loop', P, label=f'block/loop/{cond}/body={bm}/w{w}/u{int(unchecked)}', cost=3, cond=cond, w=w, unchecked=unchecked, body_modes=bm))
            for ctx in ('try-stop-body', 'defeat-function'):
                for cond in list(CONDS)[:2] if tier == 'quick' else CONDS:
                    out.append(task(MOD, 'run_if', P + ('C02',), label=f'block/if/{cond}/{ctx}/w{w}/u{int(unchecked)}', cost=6, cond=cond, w=w, unchecked=unchecked, ctx=ctx))
                    out.append(task(MOD, 'run_loop', P + ('C02',), label=f'block/loop/{cond}/{ctx}/w{w}/u{int(unchecked)}', cost=6, cond=cond, w=w, unchecked=unchecked, ctx=ctx))
            seqs = ('seq-2', 'seq-3', 'seq-break', 'seq-return') if not unchecked else ()
            for v in ('expr-block-expr', 'decl-block', 'nested', 'noreturn-tail') + seqs + (arrays if not unchecked else ('arrays-literal',)):
                out.append(task(MOD, 'run_codeblock', P, label=f'block/code/{v}/w{w}/u{int(unchecked)}', cost=4, variant=v, w=w, unchecked=unchecked))
    return out
