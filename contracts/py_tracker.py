"""C04 (head-room bookkeeping): contract of hidc.codegen.tracker.Tracker.

  Contract: a checkpoint obtained by add(c) is finalised -- when the level it was added in is popped -- with
            max(c, every value passed to update() between the add and that pop).
  (The generator guards `fp - ap >= checkpoint`, so the checkpoint must dominate every static frame size reached while it is pending.)

Proof on paper (LIFO-rank argument, DESIGN section 8 C04): max_vals stays sorted; update() rewrites a prefix to a value not above the rest, so it
changes no relative order; insertion of a newer entry does not change the relative order of older ones; entries are removed newest first, so the
recorded insertion index of the newest pending entry is its current index.  The obligation below is the *bounded* mechanical stand-in for that
argument: every operation sequence up to the stated length over a small value set, run on the real class against the ghost specification.
"""
from __future__ import annotations
import itertools, time
from hidv.oblig import task, Result, BOUNDED_OK, BOUNDED_FAILED

MOD = 'contracts.py_tracker'


def run_seq(seq):
    """returns None if fine, else a description"""
    from hidc.codegen.tracker import Tracker
    t = Tracker()
    ghost_levels = [[]]          # per level: list of [dyn, expected]
    for op in seq:
        if op[0] == 'add':
            d = t.add(op[1]); ghost_levels[-1].append([d, op[1]])
        elif op[0] == 'update':
            t.update(op[1])
            for lv in ghost_levels:
                for g in lv:
                    if g[1] < op[1]: g[1] = op[1]
        elif op[0] == 'push':
            t.push_level(); ghost_levels.append([])
        else:
            t.pop_level()
            for d, want in ghost_levels.pop():
                if d._data != want:
                    return f'checkpoint finalised with {d._data}, contract says {want}'
            if not ghost_levels: ghost_levels.append([])
        if list(t.max_vals) != sorted(t.max_vals):
            return 'max_vals not sorted'
        if len(t.max_vals) != sum(len(l) for l in ghost_levels):
            return 'number of pending values differs from the number of pending checkpoints'
    return None


def ob_tracker(first, maxlen, nvals):
    t0 = time.time()
    ops = [('push',), ('pop',)] + [('add', v) for v in range(nvals)] + [('update', v) for v in range(nvals)]
    bad = None; n = 0
    for L in range(0, maxlen):
        for rest in itertools.product(ops, repeat=L):
            seq = (ops[first],) + rest
            n += 1
            r = run_seq(seq)
            if r:
                bad = {'sequence': [' '.join(map(str, o)) for o in seq], 'problem': r}; break
        if bad: break
    det = {'formula': 'finalised checkpoint = max(value at add, updates while pending); max_vals sorted; one pending value per pending checkpoint',
           'bound': f'all operation sequences of length <= {maxlen} starting with `{" ".join(map(str, ops[first]))}` over values 0..{nvals - 1}', 'domain': n,
           'functions': ['hidc.codegen.tracker.Tracker.add', 'hidc.codegen.tracker.Tracker.update', 'hidc.codegen.tracker.Tracker.pop_level', 'hidc.codegen.tracker.Tracker.push_level',
                         'hidc.codegen.asm.DynamicValue.finalize']}
    if bad: det.update(model=bad, replay={'reproduced': True, 'how': 'the operation sequence run on the real Tracker', 'observed': bad})
    return [Result(f'C04/tracker/first={"-".join(map(str, ops[first]))}/contract', BOUNDED_FAILED if bad else BOUNDED_OK, 'bounded:enum', time.time() - t0, (), det)]


def tasks(tier):
    nvals = 3
    maxlen = 7 if tier == "quick" else 8
    return [task(MOD, 'ob_tracker', ('C04',), label=f'py/tracker/{k}', cost=6 if tier == 'quick' else 40, first=k, maxlen=maxlen, nvals=nvals) for k in range(2 + 2 * nvals)]
