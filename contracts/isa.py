"""ASSUME: the Sphinx ISA semantics (DESIGN.md 4.2).  Every line here is an assumption: the emulator is not available
offline.  Corroboration: hidv/sphinx/svm.py implements the same transcription concretely and passes all 52 cases of
upstream's tests/test_codegen.py (which the pinned suite cannot run) through hidv/sphinx/spasm_adapter.

Encoding.  A machine word is a z3 *integer* in [0, M), M = 2**(8w); every instruction result is reduced mod M
explicitly.  (Bit-vector encodings of the same semantics made frame-address reasoning with a symbolic frame offset take
0.2-6 s per query; linear integer arithmetic with explicit `mod M` takes milliseconds and does not depend on w.)
Machine arithmetic is therefore *not* treated as mathematical: wrap-around is explicit in every term.
"""
import z3

NAMED_WORDS = ('r0', 'r1', 'r2', 'ap', 'fp', 'try_fp', 'defeat')


def M(w):
    return 1 << (8 * w)


def wrap(x, m):
    return x % m                      # z3: remainder is non-negative for a positive modulus


def sx(x, m):
    """signed reading of a word in [0, M)"""
    return z3.If(x >= m // 2, x - m, x)


def floor_div(a, b):
    """ASSUME: DIV=floor.  floor(a/b) for b != 0 (z3's integer `/` is Euclidean: floor for b>0)"""
    return z3.If(b > 0, a / b, (-a) / (-b))


def floor_mod(a, b):
    """ASSUME: DIV=floor.  sign of the result follows the divisor"""
    return z3.If(b > 0, a % b, -((-a) % (-b)))


def pow2(k, limit):
    """2**k for an integer term k in [0, limit): an If-chain (keeps the arithmetic linear)"""
    e = z3.IntVal(1 << (limit - 1))
    for i in range(limit - 2, -1, -1):
        e = z3.If(k == i, z3.IntVal(1 << i), e)
    return e


_UF = {}


def uf(name, arity=2):
    key = (name, arity)
    if key not in _UF:
        _UF[key] = z3.Function('isa_' + name, *([z3.IntSort()] * (arity + 1)))
    return _UF[key]


def bitwise(op, a, b, nbits):
    """and/or/xor through the bit-vector theory (only the bool-array lemmas need it on non-constant operands)"""
    x = z3.Int2BV(a, nbits); y = z3.Int2BV(b, nbits)
    r = {'and': x & y, 'or': x | y, 'xor': x ^ y}[op]
    return z3.BV2Int(r, False)


def is_const(x):
    return z3.is_int_value(x)


# ---- known-zero bits: a sound syntactic over-approximation of the bits of a word that can be 1 -------------------------
# It lets `or` of provably bit-disjoint operands become `+`, and `and` with a constant become the removal of single bits,
# which keeps the bool-array code (pack/unpack of bits) inside linear integer arithmetic.  z3 terms are hash-consed, so
# the term id identifies the term; the term is kept alive next to its mask.
MAYBITS = {}


def set_maybits(t, mask):
    MAYBITS[t.get_id()] = (t, mask)
    return t


def maybits(t, full):
    ts = z3.simplify(t)
    if z3.is_int_value(ts):
        v = ts.as_long()
        return v if 0 <= v <= full else full
    for x in (t, ts):
        e = MAYBITS.get(x.get_id())
        if e is not None:
            return e[1] & full
    return full


def _bit(a, j):
    return (a / (1 << j)) % 2


def arith(op, a, b, w, interpret=frozenset()):
    """result word of `op [d], a, b`; a, b are integers (not necessarily reduced when op is a ring operation)"""
    m = M(w); bits = 8 * w
    if op == 'add': return wrap(a + b, m)
    if op == 'sub': return wrap(a - b, m)
    if op == 'mul':
        if is_const(z3.simplify(a)) or is_const(z3.simplify(b)):
            return wrap(a * b, m)             # linear
        if 'mul' in interpret:
            return wrap(sx(wrap(a, m), m) * sx(wrap(b, m), m), m)
        return wrap(uf('mul')(wrap(a, m), wrap(b, m)), m)
    # from here on a and b are words in [0, M) (the engine and the reference semantics only hand reduced words to the
    # non-ring operations); constants are normalised
    if is_const(z3.simplify(a)): a = z3.IntVal(z3.simplify(a).as_long() % m)
    if is_const(z3.simplify(b)): b = z3.IntVal(z3.simplify(b).as_long() % m)
    if op in ('div', 'mod'):
        if op in interpret or is_const(z3.simplify(b)):
            sa, sb = sx(a, m), sx(b, m)
            return wrap(floor_div(sa, sb) if op == 'div' else floor_mod(sa, sb), m)
        return wrap(uf(op)(a, b), m)
    if op in ('and', 'or', 'xor'):
        full = m - 1
        as_, bs = z3.simplify(a), z3.simplify(b)
        if is_const(as_) and not is_const(bs):
            a, b, as_, bs = b, a, bs, as_          # commutative: constant on the right
        ma, mb = maybits(a, full), maybits(b, full)
        if op == 'and' and is_const(bs):
            k = bs.as_long()
            if k & (k + 1) == 0:                  # mask 2**j - 1
                return set_maybits(a % (k + 1), ma & k)
            drop = [j for j in range(bits) if (ma >> j) & 1 and not (k >> j) & 1]
            if len(drop) <= 8:                    # remove the bits of a that the constant clears
                r = a
                for j in drop:
                    r = r - _bit(a, j) * (1 << j)
                return set_maybits(r, ma & k)
        if op == 'xor' and is_const(bs) and bs.as_long() == m - 1:
            return (m - 1) - a                    # complement
        if op in ('or', 'xor') and (ma & mb) == 0:
            return set_maybits(a + b, ma | mb)    # bit-disjoint operands
        return bitwise(op, a, b, bits)
    if op == 'asl':
        bs = z3.simplify(b)
        if is_const(bs):
            k = bs.as_long()
            if k >= bits:
                return z3.IntVal(0)
            ma = maybits(a, m - 1)
            if (ma << k) < m:
                return set_maybits(a * (1 << k), ma << k)      # no bit is shifted out
            return wrap(a * (1 << k), m)
        return z3.If(b < bits, wrap(a * pow2(b, min(bits, 16)), m), z3.IntVal(0)) if bits <= 16 else \
            z3.If(b < 16, wrap(a * pow2(b, 16), m), wrap(uf('asl')(a, b), m))
    if op == 'asr':
        bs = z3.simplify(b)
        sa = sx(a, m)
        if is_const(bs):
            k = min(bs.as_long(), bits - 1)
            return wrap(sa / (1 << k), m)         # Euclidean division by a positive constant = floor = arithmetic shift
        e = wrap(uf('asr')(a, b), m)
        for i in range(15, -1, -1):
            e = z3.If(b == i, wrap(sa / (1 << i), m), e)
        return e
    raise ValueError(op)


def _reduced(x, m):
    x = z3.simplify(x)
    return z3.is_int_value(x) and 0 <= x.as_long() < m


def halt_cond(op, a, b, w):
    """halt iff the relation holds; a, b reduced words"""
    m = M(w)
    c = op[1:]
    if c.endswith('u'):
        c = c[:-1]
    else:
        a, b = sx(a, m), sx(b, m)
    return {'eq': a == b, 'ne': a != b, 'lt': a < b, 'le': a <= b, 'gt': a > b, 'ge': a >= b}[c]


# --- terminal stubs of the library (proved on the real stdlib text by the C03/C05 stub lemmas) -----------------------
TERMINAL = {
    'all_is_win': ('win',),
    'all_is_broken': ('error',),
    'stack_overflow': ('stack_overflow', 'error'),
    'division_by_zero': ('division_by_zero', 'error'),
    'out_of_bounds': ('out_of_bounds', 'error'),
    'nonlocal_preempt': ('nonlocal_preempt', 'error'),
}
