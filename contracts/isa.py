"""ASSUME: the Sphinx ISA semantics (DESIGN.md 4.2).  Every line here is an assumption: the emulator is not available
offline.  Corroboration: hidv/sphinx/svm.py implements the same transcription concretely and passes all 52 cases of
upstream's tests/test_codegen.py (which the pinned suite cannot run) through hidv/sphinx/spasm_adapter.

The tables are used symbolically (z3 bit-vectors of the real width) by hidv/sphinx/sem.py and by the C09/C14 lemmas.
"""
import z3


def bits(w):
    return 8 * w


# --- arithmetic: wrap at 8w bits -------------------------------------------------------------------------------

def sdiv_floor(a, b):
    """ASSUME: DIV=floor. signed division rounding towards minus infinity (z3's bvsdiv truncates)"""
    q = a / b                      # bvsdiv (truncating)
    r = z3.SRem(a, b)              # sign follows dividend
    adjust = z3.And(r != 0, (r < 0) != (b < 0))
    return z3.If(adjust, q - 1, q)


def smod_floor(a, b):
    """ASSUME: DIV=floor. sign of the result follows the divisor"""
    r = z3.SRem(a, b)
    adjust = z3.And(r != 0, (r < 0) != (b < 0))
    return z3.If(adjust, r + b, r)


def asl(a, b):
    n = a.size()
    return z3.If(z3.ULT(b, n), a << b, z3.BitVecVal(0, n))


def asr(a, b):
    n = a.size()
    return z3.If(z3.ULT(b, n), a >> b, a >> (n - 1))      # z3 `>>` on bit-vectors is arithmetic


ARITH = {
    'add': lambda a, b: a + b,
    'sub': lambda a, b: a - b,
    'mul': lambda a, b: a * b,
    'div': sdiv_floor,
    'mod': smod_floor,
    'and': lambda a, b: a & b,
    'or': lambda a, b: a | b,
    'xor': lambda a, b: a ^ b,
    'asl': asl,
    'asr': asr,
}

# uninterpreted stand-ins used in glue lemmas, where only congruence matters (DESIGN 4.3)
_UF = {}


def uf(op, nbits):
    key = (op, nbits)
    if key not in _UF:
        s = z3.BitVecSort(nbits)
        _UF[key] = z3.Function(f'isa_{op}_{nbits}', s, s, s)
    return _UF[key]


# --- conditional halts: halt iff the relation holds ----------------------------------------------------------------
HALT_COND = {
    'heq': lambda a, b: a == b,
    'hne': lambda a, b: a != b,
    'hlt': lambda a, b: a < b,          # signed
    'hle': lambda a, b: a <= b,
    'hgt': lambda a, b: a > b,
    'hge': lambda a, b: a >= b,
    'hltu': z3.ULT,
    'hleu': z3.ULE,
    'hgtu': z3.UGT,
    'hgeu': z3.UGE,
}

# --- terminal stubs of the library (proved on the real stdlib text by the C03/C05 stub lemmas) -----------------------
TERMINAL = {
    'all_is_win': ('win',),
    'all_is_broken': ('error',),
    'stack_overflow': ('stack_overflow', 'error'),
    'division_by_zero': ('division_by_zero', 'error'),
    'out_of_bounds': ('out_of_bounds', 'error'),
    'nonlocal_preempt': ('nonlocal_preempt', 'error'),
}

NAMED_WORDS = ('r0', 'r1', 'r2', 'ap', 'fp', 'try_fp', 'defeat')
