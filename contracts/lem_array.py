"""Simulation lemmas for arrays and strings: array_lookup, array_assignment, LengthLookup, ArrayLiteral
(C01, C04 element accesses inside the array, C05 index fault exact/first, C09 bool element bit arithmetic, C13 element layout)."""
from __future__ import annotations
import itertools
from hidv.oblig import task
from hidv.harness.lemma import Lemma
from hidv.harness.vcg import SPAN
from hidc import ast
from hidc.ast import DataType, ArrayType
from hidc.codegen.symbols import AccessMode

MOD = 'contracts.lem_array'
I, B, Y, S = DataType.INT, DataType.BOOL, DataType.BYTE, DataType.STRING
GEN = ['hidc.codegen.generator.CodeGen.array_lookup', 'hidc.codegen.generator.CodeGen.array_assignment', 'hidc.codegen.generator.CodeGen.check_index',
       'hidc.codegen.generator.CodeGen.eval_expr', 'hidc.codegen.generator.CodeGen.get_expr_value', 'hidc.codegen.generator.CodeGen.lookup_var',
       'hidc.codegen.generator.CodeGen.pop_value', 'hidc.codegen.generator.CodeGen.push_value', 'hidc.codegen.generator.CodeGen.reserve_word',
       'hidc.codegen.generator.CodeGen.reserve_byte', 'hidc.codegen.generator.CodeGen.arith_op_reg_arg', 'hidc.codegen.generator.CodeGen.goto',
       'hidc.codegen.generator.ArrayRef', 'hidc.codegen.symbols.AccessMode.section', 'hidc.codegen.asm.Section', 'hidc.codegen.asm.Indirect.get',
       'hidc.codegen.generator.CodeGen.array_size', 'hidc.codegen.generator.CodeGen.create_new_stack_array', 'hidc.codegen.generator.CodeGen.pack_bools']

SOURCES = (('local', AccessMode.RW), ('local', AccessMode.R), ('local', AccessMode.RC), ('glob', AccessMode.RW), ('glob', AccessMode.RC))


def props(unchecked, fault=True):
    sim = ('C01', 'C09', 'C13') + (('C05',) if fault and not unchecked else ()) + (('C15',) if unchecked else ())
    return {'SIM': sim, 'INV': ('C08',), 'NOBOT': ('C03',), 'SAFE': ('C04',), 'NOERR': ('C10',)}


def idx(L, shape):
    if shape == 'narrowed':
        # `(p + q) is byte` used as an int (index, length): a narrowing cast of a computed value, widened again
        return ast.ByteToInt(ast.IntToByte(ast.Add(None, L.opaque('ip'), L.opaque('iq'))))
    return getattr(L, shape)('i', I)


def run_lookup(el, w, unchecked, tier):
    res = []
    for (where, access), ish, keep in itertools.product(SOURCES, ('opaque', 'literal', 'local', 'glob', 'narrowed'), (False, True)):
        if tier == 'quick' and keep and ish in ('literal', 'glob'):
            continue
        if ish == 'narrowed' and (where, access) not in (('local', AccessMode.RW), ('glob', AccessMode.RC)):
            continue
        for r_out in (('r1',) if tier == 'quick' else ('r0', 'r1', 'r2')):
            L = Lemma(f'array/lookup/{el}/{where}-{access.name}/idx={ish}/keep={int(keep)}/{r_out}/w{w}/{"unchecked" if unchecked else "checked"}', w, unchecked)
            L.functions.update(GEN)
            try:
                a = L.array_var('a', el, where, access)
                e = ast.ArrayLookup(a, idx(L, ish), SPAN.end)
                cov = [('exit', '<end>')] + ([] if unchecked else [('term', 'out_of_bounds')])
                res += L.check_scalar_expr(e, r_out, keep, props(unchecked), cov)
            finally:
                L.close()
    return res


def run_string_lookup(w, unchecked, tier):
    res = []
    for src, ish, keep in itertools.product(('opaque', 'local', 'literal'), ('opaque', 'literal', 'local'), (False, True)):
        L = Lemma(f'array/lookup/string/{src}/idx={ish}/keep={int(keep)}/w{w}/{"unchecked" if unchecked else "checked"}', w, unchecked)
        L.functions.update(GEN + ['hidc.codegen.generator.CodeGen.label_for_string'])
        try:
            s = L.string_operand('s', src)
            e = ast.ArrayLookup(s, idx(L, ish), SPAN.end)
            cov = [('exit', '<end>')] + ([] if unchecked else [('term', 'out_of_bounds')])
            res += L.check_scalar_expr(e, 'r1', keep, props(unchecked), cov)
        finally:
            L.close()
    return res


def run_length(w, unchecked, tier):
    res = []
    for el in (I, Y, B):
        for (where, access), keep in itertools.product(SOURCES, (False, True)):
            L = Lemma(f'array/length/{el}/{where}-{access.name}/keep={int(keep)}/w{w}/{"unchecked" if unchecked else "checked"}', w, unchecked)
            L.functions.update(GEN)
            try:
                a = L.array_var('a', el, where, access)
                res += L.check_scalar_expr(ast.LengthLookup(a, SPAN.end), 'r1', keep, props(unchecked, fault=False))
            finally:
                L.close()
    for src, keep in itertools.product(('opaque', 'local', 'literal'), (False, True)):
        L = Lemma(f'array/length/string/{src}/keep={int(keep)}/w{w}/{"unchecked" if unchecked else "checked"}', w, unchecked)
        L.functions.update(GEN)
        try:
            s = L.string_operand('s', src)
            res += L.check_scalar_expr(ast.LengthLookup(s, SPAN.end), 'r1', keep, props(unchecked, fault=False))
            if src == 'opaque' and not keep:
                pass
        finally:
            L.close()
    # truthiness of strings / arrays: `x is bool` = IntToBool(LengthLookup(x))
    for nm, mk in (('array', lambda L: L.array_var('a', I, 'local', AccessMode.RW)), ('string', lambda L: L.string_operand('s', 'opaque'))):
        L = Lemma(f'array/length/{nm}-is-bool/w{w}/{"unchecked" if unchecked else "checked"}', w, unchecked)
        L.functions.update(GEN)
        try:
            res += L.check_scalar_expr(ast.IntToBool(ast.LengthLookup(mk(L), SPAN.end)), 'r1', False, props(unchecked, fault=False))
        finally:
            L.close()
    return res


RHS = {I: ('opaque', 'literal', 'local'), Y: ('opaque', 'literal', 'local'), B: ('opaque', 'local', 'true', 'false')}


def rhs(L, shape, t):
    if shape in ('true', 'false'):
        return ast.BoolValue(shape == 'true', SPAN)
    return getattr(L, shape)('e', t)


def run_assign(el, w, unchecked, tier, part=None):
    res = []
    ops = {None: None, 'Add': ast.Add, 'Sub': ast.Sub, 'Mul': ast.Mul, 'Div': ast.Div, 'Mod': ast.Mod}
    for where in ('local', 'glob'):
        # index shapes include a mutable global: the right-hand side may change it, the element addressed must be the one
        # the index denoted when it was evaluated (before the right-hand side)
        for ish in ('opaque', 'literal', 'local', 'glob', 'narrowed'):
            if part is not None and part != f'{where}-{ish}' and not (ish == 'narrowed' and part == f'{where}-opaque'):
                continue          # (thorough tier: one task per array storage x index shape)
            for rsh in RHS[el]:
                for opn, op in ops.items():
                    if op is not None and (el == B or (tier == 'quick' and (ish not in ('opaque', 'glob') or rsh == 'local'))):
                        continue
                    if ish == 'narrowed' and (rsh != 'opaque' or opn not in (None, 'Add')):
                        continue
                    if tier == 'thorough' and w == 4 and ish == 'literal' and op is not None:
                        # compound assignment through a symbolic *literal* index (any integer) at 32 bit: two of these obligations time out in both
                        # solvers under load (DESIGN 16.10); the instances are discharged at w = 2 and 3, and plain assignment at w = 4
                        continue
                    L = Lemma(f'array/assign/{el}/{where}/idx={ish}/rhs={rsh}/op={opn}/w{w}/{"unchecked" if unchecked else "checked"}', w, unchecked)
                    L.functions.update(GEN)
                    try:
                        a = L.array_var('a', el, where, AccessMode.RW)
                        ix = idx(L, ish)
                        lk = ast.ArrayLookup(a, ix, SPAN.end)
                        if unchecked and ish in ('local', 'glob'):
                            # C15 speaks about fault-free runs: for an index that is a variable (its value is part of the entry state) the
                            # unchecked lemma is stated under "the index is in bounds" (otherwise the run is undefined and nothing is claimed);
                            # this also spares the solver the aliasing of an arbitrary store address with the frame
                            from contracts import isa as _isa
                            import z3 as _z3
                            av = L.vars['a'][1]; adr, size = L.var_address(ix.var)
                            iv = _isa.sx(L._word(L.entry.mem, adr), L.M)
                            L.ctx.pre += [iv >= 0, iv < _isa.sx(av.length, L.M)]
                        e = rhs(L, rsh, el if el != Y or op is None else I)
                        if op is None:
                            s = ast.Assignment(lk, e)
                        else:
                            s = ast.IncAssignment(lk, e, op, SPAN)
                        P = props(unchecked)
                        P['SIM'] = P['SIM'] + ('C08',)
                        cov = [('exit', '<end>')] + ([] if unchecked else [('term', 'out_of_bounds')]) + \
                              ([('term', 'division_by_zero')] if opn in ('Div', 'Mod') and not unchecked else [])
                        res += L.check_stmts([s], P, cov)
                    finally:
                        L.close()
    return res


def run_literal(el, w, unchecked, tier):
    res = []
    shapes = {I: ('opaque', 'literal', 'local'), Y: ('opaque', 'literal', 'local'), B: ('opaque', 'true', 'false', 'local')}[el]
    combos = [()] if False else []
    for n in (1, 2, 3):
        for sh in itertools.product(shapes, repeat=n):
            if all(s in ('literal', 'true', 'false') for s in sh):
                pass        # all-primitive non-const literals are still built on the stack (only const ones become globals)
            if tier == 'quick' and n == 3 and sum(1 for s in sh if s == 'opaque') not in (1, 3):
                continue
            combos.append(sh)
    if el == B:
        combos.append(('opaque',) * 9); combos.append(('true', 'opaque', 'false', 'false', 'true', 'opaque', 'true', 'true', 'local', 'opaque'))
        combos.append(('opaque',) * 8); combos.append(('true', 'false') * 8)          # whole bytes exactly: 8 and 16 elements
    # elements whose own evaluation needs temporaries on the frame while the new array is already allocated below them
    combos += [('nested',), ('opaque', 'nested'), ('nested', 'opaque', 'nested')]
    const_combos = [c_ for c_ in combos if len(c_) <= 2 and 'opaque' in c_][:3]          # const literals with a run-time element are built on the stack too
    for sh, is_const in [(c_, False) for c_ in combos] + [(c_, True) for c_ in const_combos]:
        L = Lemma(f'array/literal/{"const-" if is_const else ""}{el}/{",".join(sh)}/w{w}/{"unchecked" if unchecked else "checked"}', w, unchecked)
        L.functions.update(GEN)
        try:
            vals = []
            for k, s in enumerate(sh):
                if s in ('true', 'false'):
                    vals.append(ast.BoolValue(s == 'true', SPAN))
                elif s == 'nested':
                    if el == B:
                        vals.append(ast.Lt(None, ast.Add(None, L.opaque(f'p{k}'), L.opaque(f'q{k}')), L.opaque(f'r{k}')))
                    else:
                        inner = ast.Add(None, L.opaque(f'p{k}'), ast.Mul(None, L.opaque(f'q{k}'), L.opaque(f'r{k}')))
                        vals.append(inner if el == I else ast.IntToByte(inner))
                else:
                    vals.append(getattr(L, s)(f'e{k}', el))
            e = ast.ArrayLiteral(tuple(vals), SPAN, ArrayType(el, const=is_const), True)
            P_ = props(unchecked, fault=False)
            if is_const: P_['SIM'] = P_['SIM'] + ('C17',)          # which write routine a const byte[] built at run time is handed to
            res += L.check_array_expr(e, 'r1', P_)
        finally:
            L.close()
    return res


def run(family, el, w, unchecked, tier, part=None):
    el = {'int': I, 'byte': Y, 'bool': B, '-': None}[el]
    if family == 'lookup': return run_lookup(el, w, unchecked, tier)
    if family == 'string-lookup': return run_string_lookup(w, unchecked, tier)
    if family == 'length': return run_length(w, unchecked, tier)
    if family == 'assign': return run_assign(el, w, unchecked, tier, part)
    if family == 'literal': return run_literal(el, w, unchecked, tier)
    raise ValueError(family)


def tasks(tier):
    out = []
    P = ('C01', 'C03', 'C04', 'C05', 'C08', 'C09', 'C10', 'C13', 'C15', 'C17')
    for w in ((2,) if tier == 'quick' else (2, 3, 4)):          # w = 8: see DESIGN 16.10 (not claimed for the array families)
        for unchecked in (False, True):
            for fam in ('lookup', 'assign', 'literal'):
                for el in ('int', 'byte', 'bool'):
                    if tier == 'quick' and unchecked and fam == 'literal':
                        continue
                    if fam == 'assign' and tier == 'thorough':
                        for where in ('local', 'glob'):
                            for ish in ('opaque', 'literal', 'local', 'glob'):
                                if w == 4 and unchecked and ish in ('opaque', 'literal'):
                                    # compound assignment at 32 bit in unchecked builds with an index that is not a variable of the entry state: a
                                    # handful of obligations time out under load (DESIGN 16.10); discharged at w = 2, 3 (the variable-index
                                    # instances, stated under "index in bounds", are discharged at w = 4 too)
                                    continue
                                out.append(task(MOD, 'run', P, label=f'array/{fam}/{el}/{where}-{ish}/w{w}/u{int(unchecked)}', cost=8 * w * (2 if unchecked else 1),
                                                family=fam, el=el, w=w, unchecked=unchecked, tier=tier, part=f'{where}-{ish}'))
                        continue
                    out.append(task(MOD, 'run', P, label=f'array/{fam}/{el}/w{w}/u{int(unchecked)}', cost=20 * w * (2 if unchecked else 1) * (3 if fam == 'assign' else 1),
                                    family=fam, el=el, w=w, unchecked=unchecked, tier=tier))
            out.append(task(MOD, 'run', P, label=f'array/string-lookup/w{w}/u{int(unchecked)}', cost=8, family='string-lookup', el='-', w=w, unchecked=unchecked, tier=tier))
            if not unchecked or tier == 'thorough':
                out.append(task(MOD, 'run', P, label=f'array/length/w{w}/u{int(unchecked)}', cost=8, family='length', el='-', w=w, unchecked=unchecked, tier=tier))
    if tier == 'quick':
        # a word size that is not a power of two: everything that scales by the word size (element offsets, string headers, slots)
        for fam, el in (('lookup', 'int'), ('assign', 'int'), ('string-lookup', '-'), ('length', '-')):
            out.append(task(MOD, 'run', P, label=f'array/{fam}/{el}/w3/u0', cost=15, family=fam, el=el, w=3, unchecked=False, tier=tier))
    return out
