"""Contracts on hidc/codegen/asm.py rendering functions (C13, C10): `_escape_bytes`, `IntLiteral.__bytes__`,
`AsciiDirective/WordDirective/ByteDirective/ZeroDirective.lines`.

Round trip for ALL byte strings = (1) per-byte image contract, decided by complete enumeration of the finite domain
(256 bytes x 2 quotes) on the real function, (2) loop contract of `_escape_bytes` proved by pyvc on the loop body with an
*arbitrary* prefix (frame: the body reads only `byte` and `quote`, and only appends to `result`), (3) shape contract:
`result` starts empty and is what is returned.  The unescape grammar is the stated one of hidv/sphinx/reader.py
(ASSUME: assembler unescape grammar), a left-to-right token scanner, so concatenation of self-delimiting images decodes
to the concatenation of the bytes.
"""
from __future__ import annotations
import ast, inspect, time, textwrap
from hidv.oblig import task, Result, DISCHARGED, FAILED, UNDECIDED
from hidv.pyvc import core as V
from hidv.sphinx import reader

MOD = 'contracts.py_asm'
F_ESC = 'hidc.codegen.asm._escape_bytes'


def _asm():
    from hidc.codegen import asm
    return asm


def one_token(image: bytes):
    """the stated unescape grammar consumes `image` as exactly one token: returns the byte, or raises"""
    if not image:
        raise reader.AsmSyntaxError('empty image')
    if image[0] == 0x5c:
        if image[1:2] == b'x':
            if len(image) != 4: raise reader.AsmSyntaxError(f'image {image!r} is not one token')
        elif len(image) != 2:
            raise reader.AsmSyntaxError(f'image {image!r} is not one token')
    elif len(image) != 1:
        raise reader.AsmSyntaxError(f'image {image!r} is not one token')
    out = reader.unescape(image)
    if len(out) != 1:
        raise reader.AsmSyntaxError(f'image {image!r} decodes to {out!r}')
    return out[0]


def ob_escape_images():
    """enum: for every byte and both quotes the image is one self-delimiting token that decodes to the byte and does not
    contain the raw quote (which would end the string / character literal early)"""
    asm = _asm(); t0 = time.time(); bad = []
    for q in (b'"', b"'"):
        for b in range(256):
            img = asm._escape_bytes(bytes([b]), q)
            try:
                v = one_token(img)
                ok = v == b
                # a raw (unescaped) quote may not appear: the only place a quote byte may appear is right after a backslash
                if q[0] in img and not (len(img) == 2 and img[0] == 0x5c):
                    ok = False
            except reader.AsmSyntaxError as e:
                ok = False; v = str(e)
            if not ok:
                bad.append({'byte': b, 'quote': q.decode(), 'image': img.decode('latin1'), 'decoded': v})
    name = 'C13/_escape_bytes/per-byte-image'
    if bad:
        return [Result(name, FAILED, 'enum', time.time() - t0, (), {
            'formula': 'forall byte in 0..255, quote in {",\'}: unescape(_escape_bytes(bytes([byte]), quote)) == [byte], one token, no raw quote',
            'model': bad[:6], 'domain': 512, 'functions': [F_ESC],
            'replay': {'reproduced': True, 'how': 'hidc.codegen.asm._escape_bytes called by CPython on the listed byte', 'observed': bad[0]}})]
    return [Result(name, DISCHARGED, 'enum', time.time() - t0, (), {
        'formula': 'forall byte in 0..255, quote in {",\'}: unescape(_escape_bytes(bytes([byte]), quote)) == [byte], one token, no raw quote',
        'domain': 512, 'functions': [F_ESC]})]


def ob_escape_loop():
    """pyvc: loop contract + shape of `_escape_bytes`"""
    asm = _asm(); t0 = time.time()
    f, node = V.get_function('_escape_bytes', asm)
    res = []
    # shape: result = b''; for byte in data: ...; return result
    body = [s for s in node.body if not (isinstance(s, ast.Expr) and isinstance(s.value, ast.Constant))]
    shape_ok = (len(body) == 3 and isinstance(body[0], ast.Assign) and isinstance(body[0].targets[0], ast.Name)
                and isinstance(body[0].value, ast.Constant) and body[0].value.value == b''
                and isinstance(body[1], ast.For) and isinstance(body[1].iter, ast.Name) and body[1].iter.id == node.args.args[0].arg
                and not body[1].orelse
                and isinstance(body[2], ast.Return) and isinstance(body[2].value, ast.Name)
                and body[2].value.id == body[0].targets[0].id)
    name = 'C13/_escape_bytes/shape'
    if not shape_ok:
        # not a violation by itself: the function left the shape the loop contract is stated for -> undecided
        return [Result(name, UNDECIDED, 'pyvc', time.time() - t0, (), {'message': 'function is no longer `acc = b""; for x in data: ...; return acc`', 'functions': [F_ESC]})]
    res.append(Result(name, DISCHARGED, 'pyvc', time.time() - t0, (), {'formula': 'accumulator starts empty, one loop over data, accumulator returned', 'functions': [F_ESC]}))
    acc = body[0].targets[0].id; loop = body[1]; var = loop.target.id; qname = node.args.args[1].arg
    t1 = time.time(); bad = []
    n = 0
    for q in (b'"', b"'"):
        for b in range(256):
            def run(it, b=b, q=q):
                env = {acc: V.Acc('prefix'), var: b, qname: q, node.args.args[0].arg: V.Sym('data')}
                try:
                    it.block(loop.body, env, f.__globals__)
                except (V._Break, V._Continue):
                    raise V.OutsideSubset('break/continue in the loop body')
                return env
            for pr in V.explore(run):
                n += 1
                if pr.outcome != 'return':
                    bad.append({'byte': b, 'quote': q.decode(), 'outcome': repr(pr.value)}); continue
                env = pr.value
                a = env[acc]
                want = asm._escape_bytes(bytes([b]), q)
                ok = isinstance(a, V.Acc) and a.name == 'prefix' and all(isinstance(p, bytes) for p in a.parts) and b''.join(a.parts) == want
                others = {k for k in env if k not in (acc, var, qname, node.args.args[0].arg)}
                if not ok:
                    bad.append({'byte': b, 'quote': q.decode(), 'accumulator': repr(a), 'image': want.decode('latin1')})
    name = 'C13/_escape_bytes/loop-contract'
    det = {'formula': 'forall prefix, byte, quote: one iteration turns accumulator `prefix` into `prefix + image(byte, quote)` and reads nothing else',
           'domain': 512, 'paths': n, 'functions': [F_ESC]}
    if bad:
        det.update(model=bad[:5], replay={'reproduced': None})
        res.append(Result(name, FAILED, 'pyvc+enum', time.time() - t1, (), det))
    else:
        res.append(Result(name, DISCHARGED, 'pyvc+enum', time.time() - t1, (), det))
    return res


def ob_intliteral():
    """IntLiteral.__bytes__: character immediates (0..255) decode to the data under the stated immediate grammar; everything else is
    the decimal of the data (pyvc path contract, data symbolic)"""
    asm = _asm(); res = []
    t0 = time.time(); bad = []
    for d in range(256):
        for is_char in (True, False):
            txt = bytes(asm.IntLiteral(d, is_char=is_char))
            try:
                e = reader.parse_expr(txt)
                ok = e == ('int', d)
            except reader.AsmSyntaxError as ex:
                ok = False; e = str(ex)
            if not ok: bad.append({'data': d, 'is_char': is_char, 'text': txt.decode('latin1'), 'parsed': repr(e)})
    fn = 'hidc.codegen.asm.IntLiteral.__bytes__'
    det = {'formula': 'forall d in 0..255, is_char: parse_immediate(bytes(IntLiteral(d, is_char))) == d', 'domain': 512, 'functions': [fn, F_ESC]}
    if bad:
        det.update(model=bad[:5], replay={'reproduced': True, 'how': 'bytes(IntLiteral(d, is_char)) evaluated by CPython', 'observed': bad[0]})
    res.append(Result('C13/IntLiteral.__bytes__/char-immediates', FAILED if bad else DISCHARGED, 'enum', time.time() - t0, (), det))
    # symbolic data: which text is produced on which path
    t1 = time.time()
    import z3
    f, node = V.get_function('IntLiteral.__bytes__', asm)

    def c_str(it, x):
        if isinstance(x, V.ZInt):
            return V.Sym('decimal', data=x, encode=lambda enc: ('DECIMAL', x, enc))
        return str(x)

    def c_bytes(it, x=b'', *a):
        if isinstance(x, list) and any(isinstance(y, V.ZInt) for y in x):
            return V.Sym('bytes', items=tuple(x))
        return bytes(x, *a)

    def c_escape(it, data, quote):          # modular: the callee has its own contract above
        return V.Sym('escaped', data=data, quote=quote)
    probs = []; npaths = 0
    for is_char in (True, False):
        def run(it, is_char=is_char):
            self_ = V.Sym('self', data=V.ZInt(z3.Int('data')), is_char=is_char)
            return it.call_function(f, node, (self_,), {})
        mk = lambda: V.Interp(contracts={str: c_str, bytes: c_bytes, asm._escape_bytes: c_escape})
        for pr in V.explore(run, interp_factory=mk):
            npaths += 1
            d = z3.Int('data')
            if pr.outcome == 'return' and isinstance(pr.value, tuple) and pr.value[0] == 'DECIMAL' and pr.value[2] == 'utf-8' \
                    and z3.eq(pr.value[1].t, d):
                continue                        # decimal of the data: acceptable for every integer
            # any other path (character immediate, or an exception) must lie inside is_char and 0 <= data <= 255,
            # where the enumeration above has checked every value
            s = z3.Solver(); s.add(*pr.cond); s.add(z3.Not(z3.And(d >= 0, d <= 255, z3.BoolVal(is_char))))
            if pr.outcome == 'raise' or s.check() != z3.unsat:
                probs.append({'is_char': is_char, 'outcome': pr.outcome, 'value': repr(pr.value)[:200], 'cond': str(pr.cond)})
    det = {'formula': 'forall data in Z: outside (is_char and 0<=data<=255) the text is str(data).encode("utf-8") (decimal, wrapped by the assembler)',
           'functions': [fn], 'paths': npaths}
    if probs: det.update(model=probs[:4], replay={'reproduced': None})
    res.append(Result('C13/IntLiteral.__bytes__/decimal-otherwise', FAILED if probs else DISCHARGED, 'pyvc+z3', time.time() - t1, (), det))
    return res


def ob_directives():
    """every rendered data directive is in the stated line grammar and denotes the data, for every byte value (and every pair)"""
    asm = _asm(); res = []; t0 = time.time(); bad = []
    for b in range(256):
        for c in list(range(256)):
            data = bytes([b, c])
            lines = list(asm.AsciiDirective(data).lines())
            try:
                prog = reader.parse_lines(lines, section='const')
                got = b''.join(it.items[0] for it in prog.items if isinstance(it, reader.Data))
                ok = got == data and len(lines) == 1
            except reader.AsmSyntaxError as ex:
                ok = False; got = str(ex)
            if not ok:
                bad.append({'data': list(data), 'lines': [l.decode('latin1') for l in lines], 'parsed': repr(got)})
                if len(bad) > 20: break
        if len(bad) > 20: break
    fn = ['hidc.codegen.asm.AsciiDirective.lines', F_ESC]
    det = {'formula': 'forall b1,b2 in 0..255: the .ascii line for [b1,b2] parses (stated grammar) to exactly [b1,b2]', 'domain': 65536, 'functions': fn}
    if bad: det.update(model=bad[:5], replay={'reproduced': True, 'how': 'AsciiDirective(bytes).lines() evaluated by CPython and read by the stated grammar', 'observed': bad[0]})
    res.append(Result('C13/AsciiDirective/all-pairs', FAILED if bad else DISCHARGED, 'enum', time.time() - t0, (), det))
    # byte / word / zero directives with character and plain immediates
    t1 = time.time(); bad = []
    for b in range(256):
        for is_char in (False, True):
            for D, kind in ((asm.ByteDirective, 'byte'), (asm.WordDirective, 'word')):
                lines = list(D(asm.IntLiteral(b, is_char), asm.IntLiteral(255 - b, is_char)).lines())
                try:
                    prog = reader.parse_lines(lines, section='const')
                    it = [x for x in prog.items if isinstance(x, reader.Data)]
                    ok = len(it) == 1 and it[0].kind == kind and it[0].items == (('int', b), ('int', 255 - b))
                except reader.AsmSyntaxError as ex:
                    ok = False
                if not ok: bad.append({'value': b, 'is_char': is_char, 'directive': kind, 'lines': [l.decode('latin1') for l in lines]})
    det = {'formula': 'forall b, is_char: .byte/.word lines with (character) immediates parse to the values', 'domain': 1024,
           'functions': ['hidc.codegen.asm.ByteDirective.lines', 'hidc.codegen.asm.WordDirective.lines', 'hidc.codegen.asm.IntLiteral.__bytes__']}
    if bad: det.update(model=bad[:5], replay={'reproduced': True, 'how': 'Directive.lines() evaluated by CPython', 'observed': bad[0]})
    res.append(Result('C13/ByteWordDirective/all-bytes', FAILED if bad else DISCHARGED, 'enum', time.time() - t1, (), det))
    return res


def tasks(tier):
    P = ('C13', 'C10', 'C17')          # C17: what write() prints for a character / string constant goes through these renderings
    return [task(MOD, 'ob_escape_images', P, label='py/asm/escape-images'),
            task(MOD, 'ob_escape_loop', P, label='py/asm/escape-loop'),
            task(MOD, 'ob_intliteral', P + ('C14',), label='py/asm/intliteral'),
            task(MOD, 'ob_directives', P, label='py/asm/directives', cost=5)]
