"""Contracts on the hand-written library text hidc/codegen/stdlib.py::stdlib_lines (C17, C03, C05, C04).

The fragment is the *real* list of lines, parsed by hidv.sphinx.reader on every run.  Entry state = what the call
protocol (eval_func_call lemma) establishes: fp is the callee frame pointer, RA at [fp-w, fp), arguments below it, and
the caller's guard covered exactly RA + arguments (`ap + w + argbytes <= fp`): nothing more is assumed about the stack.
"""
from __future__ import annotations
import time
import z3
from hidv.oblig import task, Result, DISCHARGED, FAILED, UNDECIDED
from hidv.sphinx import sem, reader
from hidv.sphinx.sem import State, Ctx, Engine
from hidv import smt
from contracts import isa

MOD = 'contracts.lem_stdlib'
FN = ['hidc.codegen.stdlib.stdlib_lines']


def lib_items():
    from hidc.codegen import stdlib
    return sem.fragment(stdlib.stdlib_lines)


class Frag:
    def __init__(self, w, cut=(), interpret=('div', 'mod'), halting=False):
        self.w = w; self.M = 1 << (8 * w)
        c = Ctx(w, interpret=interpret, halting_cont=halting, cut_labels=cut)
        # precondition from the call protocol: the return address of a library routine is the caller's `end_call_N`
        # label, never a label of the library itself -> an indirect jump always leaves the fragment
        c.indirect_targets = lambda n: False
        self.c = c
        regs = {}
        for r in isa.NAMED_WORDS:
            regs[r] = z3.Int(r + '0'); c.pre += [regs[r] >= 0, regs[r] < self.M]
        self.entry = State(regs, z3.Array('mem0', z3.IntSort(), z3.IntSort()))
        c.stack_end = z3.Int('stack_end')
        c.pre += [5 * w <= regs['ap'], regs['ap'] <= regs['fp'], regs['fp'] <= c.stack_end, c.stack_end < self.M // 2]
        self.eng = Engine(lib_items(), c)

    def pre(self):
        labels = [v for n, v in self.c._lbl.items()]
        d = [z3.Distinct(*labels)] if len(labels) > 1 else []
        return self.c.pre + self.c.facts + d

    def run(self, label, st=None, cond=()):
        return self.eng.run(self.eng.labels[label], (st or self.entry).copy(), list(cond))

    def prove(self, cond, goal):
        return smt.prove(self.pre() + list(cond), goal)

    def word_at(self, mem, a):
        v = None
        for i in range(self.w):
            b = z3.Select(mem, a + i); self.c.facts += [b >= 0, b <= 255]
            v = b if v is None else v + (1 << (8 * i)) * b
        return v


def replay_library(w):
    """whole programs for the library routines: write(int) at every stack size around the exact fit (a live array must survive, or the run must end
    in stack_overflow with no output), write(bool) after the stack below the argument was dirtied, write(string) / write(byte[]) at this word size"""
    from hidv.sphinx import svm
    from hidc.errors import CompilerError
    obs = []
    M = 1 << (8 * w)
    vals = [0, 7, -7, 12345, -12345, M // 2 - 1, -(M // 2)]
    src = ('empty @is_you(int v, int n) { byte guard[n]; for (int k = 0; k < n; k += 1) { guard[k] = \'#\'; } write(v); write(" "); write(guard); }')
    try:
        for v in vals:
            for S in range(2, 16):
                for n in (1, 3, 8):
                    res, vm = svm.run_hid(src, args=[str(v), str(n)], word_size=w, stack_size=S)
                    good = (res == 'error' and vm.flags[:1] == ['stack_overflow'] and vm.out == b'') or (res == 'win' and vm.out == f'{v} '.encode() + b'#' * n)
                    if not good:
                        obs.append({'program': src, 'arguments': [v, n], 'stack_size_words': S, 'end': res, 'flags': vm.flags, 'printed': vm.out.decode('latin1'),
                                    'documented': f'"{v} {"#" * n}" and win, or stack_overflow with no output'})
                        break
                if obs: break
            if obs: break
        src2 = 'empty @is_you(int v) { write(v); write(" "); write(v < 0); write(v > 0); write(v == v); write(" "); write("s"); bool t = v != v; writeln(t); writeln(v is byte); }'
        for v in (31415, -1, 0, 256):
            res, vm = svm.run_hid(src2, args=[str(v)], word_size=w)
            want = f'{v} {"true" if v < 0 else "false"}{"true" if v > 0 else "false"}true sfalse\n'.encode() + bytes([v % 256]) + b'\n'
            if res != 'win' or vm.out != want:
                obs.append({'program': src2, 'argument': v, 'end': res, 'printed': vm.out.decode('latin1'), 'documented': want.decode('latin1')})
    except (CompilerError, svm.VMError, Exception) as e:
        return {'reproduced': None, 'how': f'witness programs did not run: {e!r}'}
    return {'reproduced': bool(obs), 'how': 'hidc-compiled programs on hidv.sphinx.svm', 'observed': obs[:3] or 'the witness programs behave as documented'}


def result(name, ok, t0, det, undecided=None):
    d = {'functions': FN}; d.update(det)
    if undecided:
        return Result(name, UNDECIDED, 'sphinxsem+z3', time.time() - t0, (), {**d, 'message': undecided})
    if not ok and 'replay' not in d:
        import re as _re
        m = _re.search(r'/w(\d+)/', name)
        try:
            d['replay'] = replay_library(int(m.group(1)) if m else 2)
        except Exception as e:
            d['replay'] = {'reproduced': None, 'how': f'no replay: {e!r}'}
    return Result(name, DISCHARGED if ok else FAILED, 'sphinxsem+z3', time.time() - t0, (), d)


# ---- terminal stubs (C03, C05) ------------------------------------------------------------------------------------------
def ob_stubs(w):
    res = []
    for stub, flags in isa.TERMINAL.items():
        t0 = time.time()
        F = Frag(w, cut=('tnt',), halting=True)
        F.c.use_stub_contracts = False        # this IS the proof of the stub contracts
        leaves = F.run(stub)
        problems = []
        for l in leaves:
            ev = list(l.st.trace)
            if l.kind != 'exit' or l.tgt != 'tnt':
                problems.append(f'leaf {l.kind} {l.tgt} (a terminal stub may only enter the sleep loop)')
            if [e for e in ev if e[0] == 'out']:
                problems.append('output after the fault flag')
            if tuple(e[1] for e in ev if e[0] == 'flag') != flags:
                problems.append(f'flags {[e[1] for e in ev if e[0] == "flag"]}, property prescribes {list(flags)}')
            if l.st.stores:
                problems.append('stub writes memory')
        if not leaves: problems.append('no leaf')
        res.append(result(f'lib/w{w}/stub/{stub}', not problems, t0,
                          {'formula': f'{stub}: raises exactly {list(flags)}, no output, no store, then enters the sleep loop; never halts',
                           'message': '; '.join(problems), 'replay': {'reproduced': None}}))
    # the sleep loop itself: from tnt the only continuation is tnt again (a Turing-jump loop that never commits a halt)
    t0 = time.time()
    F = Frag(w, cut=('tnt',), halting=True)
    # run from the instruction *after* the label by entering at the label with the cut lifted for the entry only
    eng = F.eng
    pc = eng.labels['tnt']
    leaves = eng.run(pc, F.entry.copy(), [])
    problems = [f'{l.kind} {l.tgt}' for l in leaves if not (l.kind == 'exit' and l.tgt == 'tnt')]
    problems += ['flag or output in the sleep loop' for l in leaves if any(e[0] in ('flag', 'out') for e in l.st.trace)]
    res.append(result(f'lib/w{w}/stub/tnt-loop', not problems and bool(leaves), t0,
                      {'formula': 'tnt: sleep; j tnt; halt  -- every iteration continues at tnt, no halt is ever committed, no flag/output',
                       'message': '; '.join(problems)}))
    return res


# ---- write(bool) -----------------------------------------------------------------------------------------------------------
def ret_ok(F, l, RA):
    """leaf is a return to the caller's RA"""
    return l.kind == 'ijump' and F.prove(l.cond, l.tgt == RA).verdict == smt.PROVED


def outs(l):
    return [e[1] for e in l.st.trace if e[0] == 'out']


def ob_write_bool(w):
    t0 = time.time()
    F = Frag(w)
    E = F.entry; fp, ap = E.regs['fp'], E.regs['ap']
    RA = F.word_at(E.mem, fp - w)
    b = z3.Select(E.mem, fp - w - 1)
    F.c.pre += [ap + w + 1 <= fp, b >= 0, b <= 1]           # caller's guard covered RA + the byte; I-bool
    leaves = F.run('write_bool')
    problems = []
    for l in leaves:
        if l.kind == 'bot':
            problems.append('write_bool can halt'); continue
        if not ret_ok(F, l, RA): problems.append(f'does not return to the caller: {l.kind}'); continue
        o = outs(l)
        want_t = [ord(c) for c in 'true']; want_f = [ord(c) for c in 'false']
        def is_text(o, want):
            return len(o) == len(want) and all(F.prove(l.cond, x == y).verdict == smt.PROVED for x, y in zip(o, want))
        if F.prove(l.cond, b == 1).verdict == smt.PROVED:
            if not is_text(o, want_t): problems.append('true is not printed as "true"')
        elif F.prove(l.cond, b == 0).verdict == smt.PROVED:
            if not is_text(o, want_f): problems.append('false is not printed as "false"')
        else:
            problems.append('leaf does not determine the boolean')
        if l.st.stores: problems.append('write_bool stores to memory')
        for r in ('fp', 'ap', 'try_fp', 'defeat'):
            if F.prove(l.cond, l.st.regs[r] == E.regs[r]).verdict != smt.PROVED: problems.append(f'{r} changed')
    if len(leaves) < 2: problems.append('expected both a true and a false leaf (vacuity guard)')
    res = [result(f'lib/w{w}/write_bool/prints-true-false', not problems, t0,
                  {'formula': 'write(bool): prints "true" iff the byte is 1, "false" iff 0; returns to RA; fp/ap/try_fp/defeat and memory unchanged',
                   'message': '; '.join(problems)})]
    t1 = time.time()
    o = F.prove([], z3.And(*[z3.Implies(z3.And(*c) if c else z3.BoolVal(True), f) for c, _, f in F.eng.safety])) if F.eng.safety else None
    ok = o is None or o.verdict == smt.PROVED
    res.append(result(f'lib/w{w}/write_bool/SAFE', ok, t1, {'formula': f'{len(F.eng.safety)} accesses inside the region the caller guarded',
                                                            'model': smt.model_to_json(o.model) if o is not None and o.model else {}}))
    return res


# ---- byte sequences: write(string), write(const byte[]), write(byte[]) ------------------------------------------------------
def seq_routine(w, entry, loop, done, section, string):
    """loop contract with a ghost index i:  INV(i): r0 = data + i, r1 = length - i, 0 <= i <= length"""
    res = []
    F = Frag(w, cut=(loop,), halting=False)
    E = F.entry; fp, ap = E.regs['fp'], E.regs['ap']
    c = F.c
    RA = F.word_at(E.mem, fp - w)
    if string:
        sptr = F.word_at(E.mem, fp - 2 * w)
        length = None
        argbytes = w
        F.c.pre += [ap + 2 * w <= fp]
        lo = z3.Int('str_lo')
        # the string object: length word then bytes, inside const memory
        ln = None
        v = None
        for i in range(w):
            bb = z3.Select(c.cmem, sptr + i); c.facts += [bb >= 0, bb <= 255]
            v = bb if v is None else v + (1 << (8 * i)) * bb
        length = v
        data = sptr + w
        c.const_extents.append((sptr, sptr + w + length))
        c.pre += [sptr >= 0, sptr + w + length < F.M // 2, length < F.M // 2]
    else:
        length = F.word_at(E.mem, fp - 2 * w)
        data = F.word_at(E.mem, fp - 3 * w)
        F.c.pre += [ap + 3 * w <= fp, length < F.M // 2, data + length < F.M // 2]
        if section == 'const':
            c.const_extents.append((data, data + length))
        else:
            c.extents.append((data, data + length))
            c.pre += [z3.Or(data + length <= ap, c.stack_end <= data)]     # I-arrays: a live array or a global
    name = entry
    # (1) from the entry to the first loop head / return
    t0 = time.time(); problems = []
    leaves = F.run(entry)
    for l in leaves:
        if l.kind == 'bot': problems.append('can halt'); continue
        if l.kind == 'exit' and l.tgt == loop:
            for f_, what in ((l.st.regs['r0'] == data, 'r0 = first byte'), (l.st.regs['r1'] == length, 'r1 = length'), (length > 0, 'loop entered only for positive length')):
                if F.prove(l.cond, f_).verdict != smt.PROVED: problems.append(f'at first loop head: {what} does not hold')
            if outs(l): problems.append('output before the loop')
        elif ret_ok(F, l, RA):
            if F.prove(l.cond, length == 0).verdict != smt.PROVED: problems.append('returns without printing although length > 0')
            if outs(l): problems.append('prints for length 0')
        else:
            problems.append(f'unexpected leaf {l.kind} {l.tgt}')
    if not any(l.kind == 'exit' for l in leaves) or not any(l.kind == 'ijump' for l in leaves): problems.append('vacuity: need a loop leaf and an empty leaf')
    res.append(result(f'lib/w{w}/{name}/loop-init', not problems, t0, {'formula': 'entry establishes INV(0) or returns at once for length 0', 'message': '; '.join(problems)}))
    # (2) inductive step
    t1 = time.time(); problems = []
    i = z3.Int('ghost_i')
    st = E.copy()
    st.regs['r0'] = data + i; st.regs['r1'] = length - i
    st.regs['r2'] = z3.Int('r2_any'); c.pre += [st.regs['r2'] >= 0, st.regs['r2'] < F.M]
    cond = [i >= 0, i < length]
    eng = F.eng
    leaves = eng.run(eng.labels[loop], st, cond)
    mem = c.cmem if section == 'const' else E.mem
    nxt = z3.Select(mem, data + i)
    for l in leaves:
        if l.kind == 'bot': problems.append('loop body can halt'); continue
        o = outs(l)
        if len(o) != 1 or F.prove(l.cond, o[0] == nxt).verdict != smt.PROVED:
            problems.append('one iteration must print exactly the byte at index i')
        if l.kind == 'exit' and l.tgt == loop:
            for f_, what in ((l.st.regs['r0'] == data + i + 1, 'r0 advances by one'), (l.st.regs['r1'] == length - (i + 1), 'r1 decreases by one'),
                             (i + 1 < length, 'continues only while bytes remain')):
                if F.prove(l.cond, f_).verdict != smt.PROVED: problems.append(f'INV(i+1): {what} fails')
        elif ret_ok(F, l, RA):
            if F.prove(l.cond, i + 1 == length).verdict != smt.PROVED: problems.append('returns before/after the last byte')
        else:
            problems.append(f'unexpected leaf {l.kind} {l.tgt}')
        if l.st.stores: problems.append('routine stores to memory')
        for r in ('fp', 'ap', 'try_fp', 'defeat'):
            if F.prove(l.cond, l.st.regs[r] == E.regs[r]).verdict != smt.PROVED: problems.append(f'{r} changed')
    if len(leaves) < 2: problems.append('vacuity: need continue and finish leaves')
    res.append(result(f'lib/w{w}/{name}/loop-step', not problems, t1,
                      {'formula': 'INV(i) and i < length: prints byte i exactly once, then INV(i+1) at the loop head or (i+1 = length) returns to RA; '
                                  'registers fp/ap/try_fp/defeat and memory unchanged  => exactly `length` bytes are printed', 'message': '; '.join(sorted(set(problems)))}))
    t2 = time.time()
    items = F.eng.safety
    o = F.prove([], z3.And(*[z3.Implies(z3.And(*cc) if cc else z3.BoolVal(True), f) for cc, _, f in items]))
    res.append(result(f'lib/w{w}/{name}/SAFE', o.verdict == smt.PROVED, t2, {'formula': f'{len(items)} accesses: frame reads inside the guarded region, element reads inside the array/string',
                                                                           'model': smt.model_to_json(o.model) if o.model else {}}))
    return res


def ob_write_seq(w, which):
    if which == 'string':
        return seq_routine(w, 'write_string', 'write_string_loop', 'write_string_done', 'const', True)
    if which == 'const':
        return seq_routine(w, 'write_const_byte_array', 'write_string_loop', 'write_string_done', 'const', False)
    return seq_routine(w, 'write_state_byte_array', 'write_state_byte_array_loop', 'write_state_byte_array_done', 'state', False)


# ---- write(int) ----------------------------------------------------------------------------------------------------------------
def ob_write_int(w):
    """write(int): loop contract on the digit loop (cut points), sign and most-negative-value paths, hand-over to the byte loop.

    Spec function (the mathematical definition of positional notation):  dec(x) = dec(x div 10) ++ [x mod 10] for x >= 10, dec(x) = [x]
    for 0 <= x < 10.  The obligations below are exactly the steps of the induction over that recursion:
      ENTRY   for v >= 0 the loop starts with x = v and an empty buffer; for v < 0 a '-' is printed first and x = |v|; for the most
              negative value the first digit (|v| mod 10) is produced by the special path and the loop continues with |v| div 10
      STEP    from x with j digits buffered: stores '0' + x mod 10 just below them, continues with x div 10 iff that is non-zero
      HANDOVER when x div 10 = 0 the byte loop is entered with r0 = first digit, r1 = number of digits  (its own contract: prints them)
    The digit count j is enumerated 0..D-1 (D = decimal digits of 2^(8w-1)); x < 10^(D-j) is part of the invariant, so the buffer
    never exceeds D bytes and the loop ends after at most D steps.
    """
    res = []
    D = len(str(1 << (8 * w - 1)))
    CUT = ('write_int_get_digits_body', 'write_int_push', 'write_state_byte_array_loop', 'write_state_byte_array_done')

    def fresh(cut=CUT):
        F = Frag(w, cut=cut, interpret=('div', 'mod'), halting=False)
        E = F.entry; fp, ap = E.regs['fp'], E.regs['ap']
        F.c.pre += [ap + 2 * w <= fp]           # what the caller's guard covered: RA + the argument, nothing more
        return F, E, fp, ap
    # ---- ENTRY
    t0 = time.time(); problems = []
    F, E, fp, ap = fresh()
    v = F.word_at(E.mem, fp - 2 * w)
    sv = isa.sx(v, F.M); MIN = F.M // 2
    leaves = F.run('write_int')
    kinds = set(); guard_missing = False
    for l in leaves:
        o = outs(l)
        def P(f): return F.prove(l.cond, f).verdict == smt.PROVED
        if l.kind == 'exit' and l.tgt == 'write_int_get_digits_body':
            if P(sv >= 0):
                kinds.add('nonneg')
                if o: problems.append('output before the digits of a non-negative value')
                if not P(l.st.regs['r2'] == sv): problems.append('non-negative: loop does not start with x = v')
            elif P(sv < 0):
                kinds.add('neg')
                if not (len(o) == 1 and P(o[0] == ord('-'))): problems.append('negative value: exactly one "-" must be printed first')
                if not P(l.st.regs['r2'] == -sv): problems.append('negative: loop does not start with x = |v|')
                if not P(v != MIN): problems.append('the most negative value must take the special path')
            else:
                problems.append('leaf does not determine the sign')
            if not P(l.st.regs['r0'] == fp - w): problems.append('buffer does not end just below the RA word')
            if l.st.stores: problems.append('store before the loop')
        elif l.kind == 'exit' and l.tgt == 'write_int_push':
            kinds.add('min')
            if not P(v == MIN): problems.append('special path taken for a value other than the most negative one')
            if not (len(o) == 1 and P(o[0] == ord('-'))): problems.append('most negative value: "-" not printed')
            if not P(z3.And(l.st.regs['r1'] == MIN % 10, l.st.regs['r2'] == MIN // 10)):
                problems.append('most negative value: first digit / remaining value are not |v| mod 10 and |v| div 10')
            if not P(l.st.regs['r0'] == fp - w): problems.append('buffer does not end just below the RA word')
        elif l.kind == 'term' and l.tgt == 'stack_overflow':
            kinds.add('overflow')
            if o: problems.append('output before the stack_overflow fault')
            if not P(fp - ap < 4 * w): problems.append('stack_overflow raised although 4 words are available')
            continue
        else:
            problems.append(f'unexpected leaf {l.kind} {l.tgt}')
        if l.kind == 'exit' and not P(ap + 4 * w <= fp):
            guard_missing = True
        for r in ('fp', 'ap', 'try_fp', 'defeat'):
            if not P(l.st.regs[r] == E.regs[r]): problems.append(f'{r} changed')
    if not {'nonneg', 'neg', 'min'} <= kinds: problems.append(f'vacuity: leaf kinds {sorted(kinds)}')
    safety = list(F.eng.safety)
    res.append(result(f'lib/w{w}/write_int/entry-sign-and-minimum', not problems, t0,
                      {'formula': 'ENTRY: x = |v|, "-" printed iff v < 0, most negative value handled by the special path with the right first digit',
                       'message': '; '.join(sorted(set(problems)))}))
    # ---- STEP / HANDOVER for every digit count j
    t1 = time.time(); problems = []; nq = 0
    for start in ('write_int_get_digits_body', 'write_int_push'):
        for j in range(D):
            # the body falls through into `write_int_push`: one iteration = body + push, so that label is not a cut here
            F, E, fp, ap = fresh(tuple(c_ for c_ in CUT if c_ != 'write_int_push') if start == 'write_int_get_digits_body' else CUT)
            RA = F.word_at(E.mem, fp - w)
            st = E.copy()
            x = z3.Int('x'); F.c.pre += [x >= 0, x < 10 ** (D - j), x < F.M // 2]       # a non-negative signed word
            st.regs['r0'] = fp - w - j
            if start == 'write_int_get_digits_body':
                st.regs['r2'] = x
                st.regs['r1'] = z3.Int('r1_any'); F.c.pre += [st.regs['r1'] >= 0, st.regs['r1'] < F.M]
                F.c.pre += [z3.Or(x > 0, j == 0)]
                digit = x % 10; rest = x / 10
            else:
                # entered from the special path: r1 = digit already, r2 = remaining value
                d = z3.Int('d'); F.c.pre += [d >= 0, d <= 9]
                st.regs['r1'] = d; st.regs['r2'] = x
                digit = d; rest = x
                if j != 0: continue
                F.c.pre += [x < 10 ** (D - 1)]
            leaves = F.eng.run(F.eng.labels[start], st, [])
            got = set()
            for l in leaves:
                nq += 1
                def P(f): return F.prove(l.cond, f).verdict == smt.PROVED
                if l.kind == 'bot': problems.append('digit loop can halt'); continue
                if outs(l): problems.append('digit loop prints')
                sts = l.st.stores
                if not (len(sts) == 1 and sts[0][1] == 1 and P(z3.And(sts[0][0] == fp - w - j - 1, sts[0][2] % 256 == ord('0') + digit))):
                    problems.append(f'j={j}: must store exactly the character of (x mod 10) directly below the digits already buffered')
                if l.kind == 'exit' and l.tgt == 'write_int_get_digits_body':
                    got.add('loop')
                    if not P(z3.And(l.st.regs['r2'] == rest, rest != 0, l.st.regs['r0'] == fp - w - j - 1)):
                        problems.append(f'j={j}: continues with something other than x div 10, or although it is zero')
                    if j + 1 >= D: problems.append(f'loop continues after {D} digits')
                elif l.kind == 'exit' and l.tgt == 'write_state_byte_array_loop':
                    got.add('print')
                    if not P(z3.And(rest == 0, l.st.regs['r0'] == fp - w - j - 1, l.st.regs['r1'] == j + 1)):
                        problems.append(f'j={j}: hand-over to the byte loop must be with r0 = first digit, r1 = digit count, when x div 10 = 0')
                else:
                    problems.append(f'unexpected leaf {l.kind} {l.tgt}')
                for r in ('fp', 'ap', 'try_fp', 'defeat'):
                    if not P(l.st.regs[r] == E.regs[r]): problems.append(f'{r} changed')
            if 'print' not in got: problems.append(f'vacuity: no hand-over leaf at j={j}')
            if j + 1 < D and start == 'write_int_get_digits_body' and 'loop' not in got: problems.append(f'vacuity: no continue leaf at j={j}')
    res.append(result(f'lib/w{w}/write_int/digit-loop-step', not problems, t1,
                      {'formula': f'STEP/HANDOVER for j = 0..{D - 1}: stores char(x mod 10) at fp-w-j-1, continues with x div 10 iff non-zero (then x div 10 < 10^({D}-j-1)), '
                                  'else enters the byte loop with (first digit, count); no output, registers fp/ap/try_fp/defeat unchanged',
                       'message': '; '.join(sorted(set(problems))), 'leaves': nq}))
    # ---- SAFE: with only RA + argument guarded by the caller, is the digit buffer inside [ap, fp)?
    t2 = time.time()
    F, E, fp, ap = fresh()
    worst = fp - w - D                     # lowest address the loop contract lets the buffer reach
    # what is known when the loop is reached: the caller's guard (RA + argument) and whatever the routine's own entry
    # code established on every path to the loop (ENTRY lemma above: `guard_missing` is False iff ap + 4w <= fp there)
    o = F.prove([] if guard_missing else [ap + 4 * w <= fp], ap <= worst)
    det = {'formula': f'the digit buffer (up to {D} bytes below the RA word, by the loop contract) lies above ap, given the caller\'s guard for RA + argument '
                      f'and the routine\'s own entry check (established on every path to the loop: {not guard_missing})'}
    if o.verdict != smt.PROVED:
        det.update(message='refuted: the buffer can reach below ap (into the array stack): the routine needs its own stack check',
                   model=smt.model_to_json(o.model), replay=replay_write_int_overflow(w))
    res.append(result(f'lib/w{w}/write_int/SAFE-buffer-above-ap', o.verdict == smt.PROVED, t2, det))
    return res


def ob_write_int_exhaustive16():
    """BOUNDED-IN: all 65536 values at 16 bit through the real compiler and the concrete VM (the property's own quantifier text)"""
    from hidv.sphinx import svm
    from hidv.oblig import BOUNDED_OK, BOUNDED_FAILED
    t0 = time.time()
    lines = svm.compile_hid('empty @is_you(int v) { write(v); }', word_size=2)
    bad = []
    for v in range(-32768, 32768):
        vm = svm.VM(lines, [str(v)])
        r = vm.run(5000)
        if r != 'win' or vm.out != str(v).encode():
            bad.append({'v': v, 'printed': vm.out.decode('latin1'), 'end': r})
            if len(bad) > 3: break
    det = {'bound': 'all 65536 values at word size 2', 'formula': 'write(v) prints str(v)', 'count': 65536, 'functions': FN}
    if bad: det.update(model=bad, replay={'reproduced': True, 'how': 'hidc-compiled `write(v)` on hidv.sphinx.svm', 'observed': bad[0]})
    return [Result('lib/w2/write_int/exhaustive-16bit-on-svm', BOUNDED_FAILED if bad else BOUNDED_OK, 'bounded:svm', time.time() - t0, (), det)]


def replay_write_int_overflow(w):
    """whole program at the tightest stack: write(int) after a byte array literal; the digit buffer must not reach the array"""
    from hidv.sphinx import svm
    from hidc.errors import CompilerError
    v = -(1 << (8 * w - 1)) + 1
    src = 'empty @is_you(int v) { byte[] a = [1,2,3,4,5,6,7,8]; write(v); writeln(); for (int i = 0; i < a.length; i += 1) { write(a[i] is int); } }'
    obs = []
    for ss in range(2, 40):
        try:
            res, vm = svm.run_hid(src, args=[str(v)], word_size=w, stack_size=ss)
        except CompilerError as e:
            continue
        out = vm.out.decode('latin1')
        if res == 'win' and out != f'{v}\n12345678':
            return {'reproduced': True, 'how': 'hidc-compiled program on hidv.sphinx.svm', 'program': src, 'args': [v], 'stack_size': ss,
                    'observed': {'output': out, 'flags': vm.flags}, 'expected': f'{v}\\n12345678 or a stack_overflow fault'}
        obs.append((ss, res))
    return {'reproduced': False, 'how': 'swept stack sizes 2..39', 'observed': obs[:6]}


def tasks(tier):
    out = []
    P_STUB = ('C03', 'C05')
    for w in ((2,) if tier == 'quick' else (2, 3, 4, 8)):
        out.append(task(MOD, 'ob_stubs', P_STUB, label=f'lib/stubs/w{w}', w=w))
        out.append(task(MOD, 'ob_write_bool', ('C17', 'C04', 'C03'), label=f'lib/write_bool/w{w}', w=w))
        for which in ('string', 'const', 'state'):
            out.append(task(MOD, 'ob_write_seq', ('C17', 'C04', 'C03', 'C13'), label=f'lib/write_seq/{which}/w{w}', w=w, which=which))          # C13: writing a constant prints exactly its bytes
        out.append(task(MOD, 'ob_write_int', ('C17', 'C04', 'C03'), label=f'lib/write_int/w{w}', w=w, cost=5 * w))
    if tier == 'quick':
        for w in (3, 8):
            out.append(task(MOD, 'ob_write_int', ('C17', 'C04', 'C03', 'C01'), label=f'lib/write_int/w{w}', w=w, cost=5 * w))
            out.append(task(MOD, 'ob_write_seq', ('C17', 'C04', 'C03', 'C01', 'C13'), label=f'lib/write_seq/string/w{w}', w=w, which='string'))
            out.append(task(MOD, 'ob_write_bool', ('C17', 'C04', 'C03', 'C01'), label=f'lib/write_bool/w{w}', w=w))
    if tier == 'thorough':
        out.append(task(MOD, 'ob_write_int_exhaustive16', ('C17',), label='lib/write_int/exhaustive16', cost=50))
    return out
