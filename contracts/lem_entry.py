"""Program entry (C01 base case of the frame invariant, C04/C08 initial head-room, C18 stack size):
the data image laid out by the real `gen_lines` agrees with the frame the real `gen_func` reserves for the entry point.

  ENTRY-FRAME  for every entry signature (all parameter lists of length <= 3 over the admissible types, at most one array), with pairwise
               distinct marker arguments: ap = stack_start, fp = stack_end, the return-address slot holds all_is_win, every parameter's
               accessor (as reserved by the real gen_func, read back from the subclass hook below) reads the corresponding command line
               argument (scalars: the value; arrays/strings: length word and the bytes at the origin), the free space fp-ap equals
               stack_size words + the frame of the entry point
  ENTRY-STACK  the stack area is exactly `stack_size` words for every stack size in a set and nothing else in the state section depends on it

The number of parameters is unbounded in the language; the loop over parameters in __post_init__/gen_func is covered up to length 3 only:
this obligation is reported as bounded (bound: number of entry parameters <= 3); for 0..3 parameters it is a complete enumeration.
Assumed: the assembler's `%argv` / `.arg` binding as transcribed in hidv/sphinx/svm.py (Image.emit_arg).
"""
from __future__ import annotations
import itertools, time
from hidv.oblig import task, Result, DISCHARGED, FAILED, BOUNDED_OK, BOUNDED_FAILED

MOD = 'contracts.lem_entry'
TYPES = ('byte', 'int', 'string', 'byte[]', 'const byte[]', 'int[]', 'const int[]', 'const string[]')


def compile_capture(src, w, stack_size):
    from hidc.lexer import SourceCode
    from hidc.parser import parse
    from hidc.ast import Environment
    from hidc.codegen import CodeGen
    captured = {}

    class Cap(CodeGen):
        def gen_func(self, csig, func):
            yield from super().gen_func(csig, func)
            if csig.name.base_name == 'is_you' and 'vars' not in captured:
                # local_vars was rebuilt at the start of gen_func and scopes opened by the body are closed again
                captured['vars'] = dict(self.local_vars.maps[-1])
                captured['ra'] = self.return_address
    env = Environment.empty()
    parse(SourceCode.from_string(src)).evaluate(env)
    cg = Cap(env, word_size=w, stack_size=stack_size, unchecked=False)
    return list(cg.gen_lines()), captured


def acc_addr(img, acc, fp):
    """address a real fp-relative accessor denotes (Indirect / IndirectByte with base State(fp), constant offset)"""
    from hidc.codegen import asm
    assert isinstance(acc, (asm.Indirect, asm.IndirectByte)), acc
    assert bytes(acc.base) == b'[fp]', bytes(acc.base)
    off = acc.offset.data if isinstance(acc.offset, asm.IntLiteral) else None
    assert off is not None
    return fp + off


def check_one(params, w, stack_size):
    from hidv.sphinx import svm
    names = [f'p{i}' for i in range(len(params))]
    src = 'empty @is_you(' + ', '.join(f'{t} {n}' for t, n in zip(params, names)) + ') { }'
    lines, cap = compile_capture(src, w, stack_size)
    args = []
    want = {}
    for i, (t, n) in enumerate(zip(params, names)):
        if t == 'byte': args.append(str(17 + i)); want[n] = ('byte', 17 + i)
        elif t == 'int': args.append(str(1000 + 7 * i)); want[n] = ('word', 1000 + 7 * i)
        elif t == 'string': args.append(f's{i}xyz'.encode()); want[n] = ('string', f's{i}xyz'.encode())
        elif t.endswith('byte[]'): v = [3 + i, 5 + i, 250]; args += [str(x) for x in v]; want[n] = ('bytes', v, 'const' in t)
        elif t.endswith('int[]'): v = [300 + i, 2, 65000, 9]; args += [str(x) for x in v]; want[n] = ('words', v, 'const' in t)
        elif t == 'const string[]': v = [b'ab', b'', b'hello']; args += v; want[n] = ('strings', v)
    img = svm.Image(lines, args=[a if isinstance(a, bytes) else a for a in args])
    L = img.labels; W = w
    rd = lambda buf, a: int.from_bytes(buf[a:a + W], 'little')
    st = img.state
    problems = []
    ap, fp = rd(st, L['ap']), rd(st, L['fp'])
    if ap != L['stack_start']: problems.append('ap does not start at stack_start')
    if fp != L['stack_end']: problems.append('fp does not start at stack_end')
    ra = acc_addr(img, cap['ra'], fp)
    code_labels = {k: v for k, v in L.items() if img.label_section[k] == 'code'}
    if rd(st, ra) != code_labels.get('all_is_win'): problems.append('return address slot of the entry point does not hold all_is_win')
    lowest = ra
    for n in names:
        v = cap['vars'][n]
        kind = want[n]
        if kind[0] in ('byte', 'word', 'string'):
            a = acc_addr(img, v, fp); lowest = min(lowest, a)
            if kind[0] == 'byte':
                if st[a] != kind[1]: problems.append(f'{n}: byte parameter reads {st[a]} instead of {kind[1]}')
            elif kind[0] == 'word':
                if rd(st, a) != kind[1]: problems.append(f'{n}: int parameter reads {rd(st, a)} instead of {kind[1]}')
            else:
                p = rd(st, a); ln = rd(img.const, p)
                if bytes(img.const[p + W:p + W + ln]) != kind[1] or ln != len(kind[1]): problems.append(f'{n}: string parameter does not denote the argument')
        else:
            la, oa = acc_addr(img, v.length, fp), acc_addr(img, v.origin, fp); lowest = min(lowest, la, oa)
            ln, org = rd(st, la), rd(st, oa)
            vals = kind[1]
            if ln != len(vals): problems.append(f'{n}: array length {ln} instead of {len(vals)}')
            buf = img.const if (kind[0] == 'strings' or kind[2]) else st
            sect = v.type.access.section.name
            if (sect == 'CONST') != (buf is img.const): problems.append(f'{n}: array storage section {sect} does not match where the data is emitted')
            for k, x in enumerate(vals):
                if kind[0] == 'bytes': got = buf[org + k]
                elif kind[0] == 'words': got = rd(buf, org + k * W)
                else:
                    p = rd(buf, org + k * W); l2 = rd(img.const, p); got = bytes(img.const[p + W:p + W + l2])
                if got != x: problems.append(f'{n}[{k}] reads {got!r} instead of {x!r}'); break
    if lowest - ap != stack_size * W: problems.append(f'free space between ap and the entry frame is {lowest - ap} bytes, not stack_size words = {stack_size * W}')
    if any(st[ap:lowest]): problems.append('stack area not zero-initialised')
    return problems, src


def ob_entry_frame(w, maxp=3):
    t0 = time.time(); bad = []; n = 0
    for k in range(0, maxp + 1):
        for params in itertools.product(TYPES, repeat=k):
            if sum(1 for t in params if t.endswith(']')) > 1: continue
            n += 1
            try:
                p, src = check_one(params, w, 20)
            except Exception as e:
                p, src = [f'{type(e).__name__}: {e}'], str(params)
            if p: bad.append({'entry': src, 'problems': p[:3]})
            if len(bad) > 4: break
    det = {'formula': 'initial image: ap=stack_start, fp=stack_end, RA slot=all_is_win, each parameter accessor reserved by gen_func reads its command line argument, '
                      'free space = stack_size words', 'domain': n, 'bound': f'entry parameter lists of length <= {maxp} (complete for those)',
           'functions': ['hidc.codegen.generator.CodeGen.__post_init__', 'hidc.codegen.generator.CodeGen.gen_lines', 'hidc.codegen.generator.CodeGen.gen_func',
                         'hidc.codegen.generator.CodeGen.reserve_type', 'hidc.codegen.asm.ArgDirective.lines']}
    if bad: det.update(model=bad[:3], replay={'reproduced': True, 'how': 'real CodeGen output laid out by hidv.sphinx.svm.Image', 'observed': bad[0]})
    return [Result(f'entry/w{w}/ENTRY-FRAME', BOUNDED_FAILED if bad else BOUNDED_OK, 'bounded:enum', time.time() - t0, (), det)]


def ob_entry_stack(w):
    """stack_size S: the image differs from the image at S' only in the size of the zero area (all labels above shift by (S'-S) words)"""
    from hidv.sphinx import svm
    t0 = time.time(); bad = []
    src = 'int g = 5; byte[] b = [1,2,3]; empty @is_you(int a, const string[] v) { try { write(v[0]); !is_defeat(); } undo { write(a + g); } }'
    base = None
    sizes = (0, 1, 2, 7, 20, 500, 4000)
    for S in sizes:
        try:
            lines, cap = compile_capture(src, w, S)
        except Exception as e:
            bad.append({'stack_size': S, 'raises': repr(e)}); continue
        txt = [l for l in lines]
        zero = [i for i, l in enumerate(txt) if l.strip().startswith(b'.zero')]
        key = [l for i, l in enumerate(txt) if i != zero[0]]
        img = svm.Image(lines, args=['9', b'q'])
        if img.labels['stack_end'] - img.labels['stack_start'] != S * w + 4 * w: bad.append({'stack_size': S, 'problem': 'stack area + entry frame size'})
        if base is None: base = key
        elif key != base: bad.append({'stack_size': S, 'problem': 'text other than the stack area directive depends on stack_size'})
    det = {'formula': 'stack_size changes only the size of the zero-initialised stack area', 'domain': len(sizes),
           'functions': ['hidc.codegen.generator.CodeGen.gen_lines']}
    if bad: det.update(model=bad[:3], replay={'reproduced': True, 'how': 'real CodeGen output compared across stack sizes', 'observed': bad[0]})
    return [Result(f'entry/w{w}/ENTRY-STACK', FAILED if bad else DISCHARGED, 'enum', time.time() - t0, (), det)]


def tasks(tier):
    out = []
    for w in ((2, 3) if tier == 'quick' else (2, 3, 4, 8)):
        out.append(task(MOD, 'ob_entry_frame', ('C01', 'C04', 'C08'), label=f'entry/frame/w{w}', w=w, maxp=2 if tier == 'quick' else 3, cost=5))
        out.append(task(MOD, 'ob_entry_stack', ('C18',), label=f'entry/stack/w{w}', w=w, cost=1))
    return out
