"""Witness programs with documented behaviour (contracts/witness_programs/*.hid + index.json), used only to *replay* a failed obligation of the
time-travel lemmas on the real compiler: each program is compiled by the tree under test and run on hidv.sphinx.svm; a program whose behaviour
differs from the documented one is a concrete failing input.  The documented behaviours were confirmed on the unchanged tree when the programs
were added; they follow README "try / undo / stop / preempt / ??"."""
from __future__ import annotations
import json, os

HERE = os.path.join(os.path.dirname(os.path.abspath(__file__)), 'witness_programs')


def replay_time(w=2, unchecked=False):
    from hidv.sphinx import svm
    from hidc.errors import CompilerError
    idx = json.load(open(os.path.join(HERE, 'index.json')))
    obs = []; n = 0
    for name, want in sorted(idx.items()):
        src = open(os.path.join(HERE, name + '.hid')).read()
        for u in sorted({False, bool(unchecked)}):
            if u and 'nonlocal_preempt' in want['flags']:
                continue          # the run-time check does not exist in unchecked builds
            n += 1
            try:
                res, vm = svm.run_hid(src, word_size=w, unchecked=u)
                got = {'end': res, 'output': vm.out.decode('latin1'), 'flags': vm.flags}
            except CompilerError as e:
                got = {'error': f'{type(e).__name__}: {e}'}
            except Exception as e:
                got = {'error': repr(e)}
            if got != {k: want[k] for k in ('end', 'output', 'flags')}:
                obs.append({'program': f'contracts/witness_programs/{name}.hid', 'unchecked': u, 'word_size': w, 'observed': got, 'documented': {k: want[k] for k in ('end', 'output', 'flags')}})
    return {'reproduced': bool(obs), 'how': f'{n} hidc-compiled witness programs on hidv.sphinx.svm', 'observed': obs[:3] or 'the witness programs behave as documented'}


_CACHE = {}


def replay_time_cached(w, unchecked):
    k = (w, unchecked)
    if k not in _CACHE:
        _CACHE[k] = replay_time(w, unchecked)
    return _CACHE[k]
