"""Simulation lemmas for line statements: the real CodeGen.gen_stmts cases on abstract operands
(C01; C08 for return/break/continue releasing arrays and restoring defeat; C02 for exits out of a try)."""
from __future__ import annotations
import itertools
from hidv.oblig import task
from hidv.harness.lemma import Lemma
from hidv.harness.vcg import SPAN
from hidc import ast
from hidc.ast import DataType
from hidc.codegen import asm, generator, stdlib

MOD = 'contracts.lem_stmt'
I, B, Y = DataType.INT, DataType.BOOL, DataType.BYTE
GEN = ['hidc.codegen.generator.CodeGen.gen_stmts', 'hidc.codegen.generator.CodeGen.push_expr', 'hidc.codegen.generator.CodeGen.eval_expr',
       'hidc.codegen.generator.CodeGen.get_expr_value', 'hidc.codegen.generator.CodeGen.lookup_var', 'hidc.codegen.generator.CodeGen.reset_ap',
       'hidc.codegen.generator.CodeGen.at_offset', 'hidc.codegen.generator.CodeGen.reserve_type', 'hidc.codegen.generator.CodeGen.goto',
       'hidc.codegen.generator.CodeGen.push_value', 'hidc.codegen.generator.CodeGen.pop', 'hidc.codegen.asm.Accessor.to', 'hidc.codegen.asm.State.set',
       'hidc.codegen.asm.Indirect.set', 'hidc.codegen.asm.IndirectByte.set', 'hidc.codegen.asm.StateByte.set', 'hidc.ast.statements.IncAssignment.type_equiv_assignment']


def props(unchecked, c02=False):
    sim = ('C01', 'C09') + (('C15',) if unchecked else ()) + (('C02',) if c02 else ())
    return {'SIM': sim + ('C08',), 'INV': ('C08',), 'NOBOT': ('C03',), 'SAFE': ('C04',), 'NOERR': ('C10',)}


RHS = {
    I: ('opaque', 'literal', 'local', 'glob'),
    Y: ('opaque', 'literal', 'local', 'glob'),
    B: ('opaque', 'local', 'glob', 'true'),
}


def rhs(L, shape, name, t):
    if shape == 'true':
        return ast.BoolValue(True, SPAN)
    return getattr(L, shape)(name, t)


def run_decl(w, unchecked):
    res = []
    cases = []
    for t in (I, Y, B):
        for sh in RHS[t]:
            cases.append((f'{t}-{sh}', t, lambda L, t=t, sh=sh: rhs(L, sh, 'e', t)))
    cases += [('int-from-byte', I, lambda L: ast.ByteToInt(L.opaque('e', Y))),
              ('int-from-byte-local', I, lambda L: ast.ByteToInt(L.local('e', Y))),
              ('int-from-bool', I, lambda L: ast.ByteToInt(ast.BoolToByte(L.opaque('e', B)))),
              ('byte-from-int', Y, lambda L: ast.IntToByte(L.opaque('e', I))),
              ('byte-from-int-local', Y, lambda L: ast.IntToByte(L.local('e', I))),
              ('byte-from-int-glob', Y, lambda L: ast.IntToByte(L.glob('e', I))),
              ('bool-from-cmp', B, lambda L: ast.Lt(None, L.opaque('a'), L.opaque('b'))),
              ('bool-from-int', B, lambda L: ast.IntToBool(L.opaque('e', I))),
              ('int-sum', I, lambda L: ast.Add(None, L.opaque('a'), L.local('b'))),
              # narrow-then-widen chains in a push position (`int y = (a + b) is byte;`)
              ('int-from-narrowed-sum', I, lambda L: ast.ByteToInt(ast.IntToByte(ast.Add(None, L.opaque('a'), L.opaque('b'))))),
              ('int-from-narrowed-glob', I, lambda L: ast.ByteToInt(ast.IntToByte(L.glob('g', I)))),
              ('int-from-narrowed-opaque', I, lambda L: ast.ByteToInt(ast.IntToByte(L.opaque('e', I)))),
              ('int-from-bool-of-int', I, lambda L: ast.ByteToInt(ast.BoolToByte(ast.IntToBool(L.opaque('e', I)))))]
    for nm, t, mk in cases:
        L = Lemma(f'stmt/decl/{nm}/w{w}/{"unchecked" if unchecked else "checked"}', w, unchecked)
        L.functions.update(GEN)
        try:
            init = mk(L)
            d = ast.Declaration(ast.Variable('x', t, False), init, SPAN.start)
            res += L.check_stmts([d], props(unchecked))
        finally:
            L.close()
    return res


def run_assign(w, unchecked):
    res = []
    for t in (I, Y, B):
        for tgt in ('local', 'glob'):
            for sh in RHS[t]:
                L = Lemma(f'stmt/assign/{t}-{tgt}={sh}/w{w}/{"unchecked" if unchecked else "checked"}', w, unchecked)
                L.functions.update(GEN)
                try:
                    x = getattr(L, tgt)('x', t)
                    e = rhs(L, sh, 'e', t)
                    res += L.check_stmts([ast.Assignment(x, e)], props(unchecked))
                finally:
                    L.close()
    # x = x op e, x = e op x with the same variable on both sides; assignment from a wider computation
    for tgt in ('local', 'glob'):
        for nm, mk in (('self-add', lambda L, x: ast.Add(None, x, L.opaque('e'))), ('opaque-sub-self', lambda L, x: ast.Sub(None, L.opaque('e'), x)),
                       ('self-mul-self', lambda L, x: ast.Mul(None, x, x))):
            L = Lemma(f'stmt/assign/int-{tgt}-{nm}/w{w}/{"unchecked" if unchecked else "checked"}', w, unchecked)
            L.functions.update(GEN)
            try:
                x = getattr(L, tgt)('x', I)
                res += L.check_stmts([ast.Assignment(x, mk(L, x))], props(unchecked))
            finally:
                L.close()
    return res


def run_incassign(w, unchecked):
    res = []
    ops = {'Add': ast.Add, 'Sub': ast.Sub, 'Mul': ast.Mul, 'Div': ast.Div, 'Mod': ast.Mod}
    for op, cls in ops.items():
        for tgt in ('local', 'glob'):
            for sh in ('opaque', 'literal', 'local'):
                L = Lemma(f'stmt/incassign/{op}/{tgt}-{sh}/w{w}/{"unchecked" if unchecked else "checked"}', w, unchecked)
                L.functions.update(GEN)
                try:
                    x = getattr(L, tgt)('x', I)
                    e = rhs(L, sh, 'e', I)
                    s = ast.IncAssignment(x, e, cls, SPAN)
                    P = props(unchecked)
                    if op in ('Div', 'Mod') and not unchecked:
                        P['SIM'] = P['SIM'] + ('C05',)
                    cov = [('exit', '<end>')] + ([('term', 'division_by_zero')] if op in ('Div', 'Mod') and not unchecked else [])
                    res += L.check_stmts([s], P, cov)
                finally:
                    L.close()
    return res


def run_exprstmt(w, unchecked):
    res = []
    for nm, mk in (('int', lambda L: L.opaque('e', I)), ('bool', lambda L: L.opaque('e', B)), ('byte', lambda L: L.opaque('e', Y)),
                   ('sum', lambda L: ast.Add(None, L.opaque('a'), L.opaque('b'))), ('cmp', lambda L: ast.Le(None, L.opaque('a'), L.opaque('b'))),
                   ('local', lambda L: L.local('v', I))):
        L = Lemma(f'stmt/expr/{nm}/w{w}/{"unchecked" if unchecked else "checked"}', w, unchecked)
        L.functions.update(GEN)
        try:
            res += L.check_stmts([mk(L)], props(unchecked))
        finally:
            L.close()
    return res


def run_return(w, unchecked):
    res = []
    for nm, mk in (('none', None), ('int-opaque', lambda L: L.opaque('v', I)), ('int-local', lambda L: L.local('v', I)),
                   ('int-literal', lambda L: L.literal('v', I)), ('byte-opaque', lambda L: L.opaque('v', Y)), ('bool-opaque', lambda L: L.opaque('v', B)),
                   ('bool-cmp', lambda L: ast.Lt(None, L.opaque('a'), L.opaque('b'))), ('int-sum-glob', lambda L: ast.Add(None, L.opaque('a'), L.glob('g')))):
        for k in (0, 1, 2):
            for in_try in (False, True):
                L = Lemma(f'stmt/return/{nm}/arrays={k}/try={int(in_try)}/w{w}/{"unchecked" if unchecked else "checked"}',
                          w, unchecked, virtual_defeat=in_try, n_prior_arrays=k)
                L.functions.update(GEN)
                try:
                    L.function_context(in_try=in_try)
                    s = ast.ReturnStatement(SPAN, mk(L) if mk else None)
                    P = props(unchecked, c02=in_try)
                    res += L.check_stmts([s], P, [('ijump', None)])
                finally:
                    L.close()
    return res


def run_return_protected(w, unchecked):
    """return from a preemptive defeat function (README "Preemptive defeat functions"): in a checked build, if what follows the return would lead to
    defeat the run ends with the nonlocal_preempt error; otherwise (and always in an unchecked build) it is an ordinary return"""
    res = []
    for nm, mk in (('none', None), ('int-opaque', lambda L: L.opaque('v', I)), ('bool-cmp', lambda L: ast.Lt(None, L.opaque('a'), L.opaque('b')))):
        for k in (0, 1):
            L = Lemma(f'stmt/return-protected/{nm}/arrays={k}/w{w}/{"unchecked" if unchecked else "checked"}', w, unchecked, virtual_defeat=True, n_prior_arrays=k)
            L.functions.update(GEN)
            try:
                L.function_context(in_try=False)
                cg = L.cg
                # a defeat function: defeat is the variable word throughout; preemptive => protected (gen_func sets this from body.preemptive)
                cg.func_defeat = asm.State(cg.defeat); cg.effective_defeat = cg.func_defeat; cg.needs_variable_defeat = True
                cg.needs_return_protection = not unchecked
                L.func_defeat_value = L.entry.regs['defeat']
                L.return_protected = True
                s = ast.ReturnStatement(SPAN, mk(L) if mk else None)
                P = props(unchecked, c02=True)
                P['SIM'] = P['SIM'] + ('C05',)
                res += L.check_stmts([s], P, [('ijump', None)])
                if not unchecked:
                    import time as _t
                    t0 = _t.time()
                    prot = [l for l in L.last_leaves if l.kind == 'term' and l.tgt == 'nonlocal_preempt']
                    ok = bool(prot) and all(l.tag is not None and l.tag[0] == 'assumed-bot' for l in prot)
                    L.add('PROTECTED', 'discharged' if ok else 'failed', t0, ('C02', 'C05'),
                          {'formula': 'nonlocal_preempt is raised exactly on the assumption that the continuation of the return halts',
                           'message': '' if ok else 'no protection leaf, or the nonlocal_preempt error is reachable without the continuation halting'})
                    res.append(L.results[-1])
            finally:
                L.close()
    return res


def run_loop_exit(w, unchecked):
    """break / continue: release exactly the arrays allocated since the loop's restore point, restore the loop's defeat"""
    res = []
    for kind, cls in (('break', ast.BreakStatement), ('continue', ast.ContinueStatement)):
        for k in (0, 1, 2):
            for r in range(k + 1):
                for out_of_try in (False, True):
                    L = Lemma(f'stmt/{kind}/arrays={k}/restore={r}/leaves-try={int(out_of_try)}/w{w}/{"unchecked" if unchecked else "checked"}',
                              w, unchecked, virtual_defeat=out_of_try, n_prior_arrays=k)
                    L.functions.update(GEN)
                    try:
                        cg = L.cg
                        if out_of_try:
                            # the loop encloses the try: inside the try body defeat is the variable, the loop's defeat is halt
                            cg.effective_defeat = asm.State(cg.defeat)
                            loop_defeat = stdlib.halt
                            L.loop_defeat_value = L.ctx.label('halt')
                        else:
                            loop_defeat = cg.effective_defeat
                        restore = generator.StackPoint(offset=L.sym('RO', 1, None), array_num=r, static_array_size=0)
                        # an outer loop around the innermost one (break/continue concern the innermost): other labels, no arrays released, other defeat
                        cg.loop_info.append(generator.LoopInfo(generator.StackPoint(offset=L.sym('ROO', 1, None), array_num=0, static_array_size=0),
                                                               asm.LabelRef('continue_outer'), asm.LabelRef('break_outer'), stdlib.halt))
                        cg.loop_info.append(generator.LoopInfo(restore, asm.LabelRef('continue_ext'), asm.LabelRef('break_ext'), loop_defeat))
                        L.exit_labels.update({'break': 'break_ext', 'continue': 'continue_ext'})
                        if r < k:
                            L.ap_at_loop_restore = L.prior_arrays[r]['origin_value']
                        P = props(unchecked, c02=out_of_try)
                        P['SIM'] = P['SIM'] + ('C16',)          # where control goes: the innermost loop's label (exit-mode analysis assumes that)
                        res += L.check_stmts([cls(SPAN)], P, [('exit', f'{kind}_ext')])
                    finally:
                        L.close()
    return res


def run_decl_array(w, unchecked):
    """declarations of array variables (push_expr on an array-typed initialiser): a literal creates a new stack array, `T a[n]` a new
    uninitialised one, an array variable / string view as initialiser binds a second reference to the same storage (no copy).
    A following lookup through the new name reads the array the source semantics bound; ap advances by exactly the sizes allocated."""
    from hidc.ast import ArrayType
    from hidc.codegen.symbols import AccessMode
    res = []
    def lit(L, el, n, tag=''):
        return ast.ArrayLiteral(tuple(L.opaque(f'e{tag}{k}', el) for k in range(n)), SPAN, ArrayType(el, const=False), True)
    def look(L, name, t, idx='i'):
        return ast.ArrayLookup(ast.VariableLookup(ast.Variable(name, t, False), SPAN), L.opaque(idx), SPAN.end)
    cases = []
    for el in (I, Y, B):
        cases.append((f'literal-{el}', False, lambda L, el=el: [ast.Declaration(ast.Variable('a', ArrayType(el, False), False), lit(L, el, 2), SPAN.start),
                                                              look(L, 'a', ArrayType(el, False))]))
        cases.append((f'dynamic-{el}', True, lambda L, el=el: [ast.Declaration(ast.Variable('a', ArrayType(el, False), False),
                                                                               ast.ArrayInitializer(ArrayType(el, False), L.opaque('n')), SPAN.start),
                                                              L.opaque('s', I)]))
    cases.append(('literal-then-literal', False, lambda L: [ast.Declaration(ast.Variable('a', ArrayType(I, False), False), lit(L, I, 2, 'a'), SPAN.start),
                                                            ast.Declaration(ast.Variable('b', ArrayType(Y, False), False), lit(L, Y, 3, 'b'), SPAN.start),
                                                            look(L, 'a', ArrayType(I, False)), look(L, 'b', ArrayType(Y, False), 'j')]))
    cases.append(('dynamic-then-literal', True, lambda L: [ast.Declaration(ast.Variable('a', ArrayType(I, False), False),
                                                                           ast.ArrayInitializer(ArrayType(I, False), L.opaque('n')), SPAN.start),
                                                           ast.Declaration(ast.Variable('b', ArrayType(I, False), False), lit(L, I, 2, 'b'), SPAN.start),
                                                           look(L, 'b', ArrayType(I, False), 'j')]))
    cases.append(('literal-then-dynamic', True, lambda L: [ast.Declaration(ast.Variable('b', ArrayType(I, False), False), lit(L, I, 2, 'b'), SPAN.start),
                                                           ast.Declaration(ast.Variable('a', ArrayType(Y, False), False),
                                                                           ast.ArrayInitializer(ArrayType(Y, False), L.opaque('n')), SPAN.start),
                                                           look(L, 'b', ArrayType(I, False), 'j')]))
    for where, access in (('local', AccessMode.RW), ('local', AccessMode.R), ('local', AccessMode.RC), ('glob', AccessMode.RW), ('glob', AccessMode.RC)):
        def mk(L, where=where, access=access):
            src = L.array_var('a', I, where, access)
            const = access != AccessMode.RW
            init = src if const or True else src
            return [ast.Declaration(ast.Variable('b', ArrayType(I, const), False), init, SPAN.start), look(L, 'b', ArrayType(I, const))]
        cases.append((f'alias-{where}-{access.name}', False, mk))
    cases.append(('alias-volatile', False, lambda L: [ast.Declaration(ast.Variable('b', ArrayType(I, True), False),
                                                                       ast.Volatile(L.array_var('a', I, 'local', AccessMode.RW)), SPAN.start),
                                                     look(L, 'b', ArrayType(I, True))]))
    cases.append(('string-as-bytes', False, lambda L: [ast.Declaration(ast.Variable('b', ArrayType(Y, True), False),
                                                                        ast.StringToByteArray(L.string_operand('s', 'opaque')), SPAN.start),
                                                      look(L, 'b', ArrayType(Y, True))]))
    for nm, dyn, mk in cases:
        if dyn and unchecked:
            continue          # the unchecked build has no allocation guard: specified only when the array fits (lem_guard states that precondition)
        L = Lemma(f'stmt/decl-array/{nm}/w{w}/{"unchecked" if unchecked else "checked"}', w, unchecked)
        L.functions.update(GEN + ['hidc.codegen.generator.CodeGen.create_new_stack_array', 'hidc.codegen.generator.CodeGen.array_lookup'])
        try:
            cov = [('exit', '<end>')] + ([] if unchecked else [('term', 'out_of_bounds')] if not nm.startswith('dynamic') else [('term', 'stack_overflow')])
            P_ = props(unchecked)
            if nm == 'string-as-bytes':
                P_['SIM'] = P_['SIM'] + ('C13', 'C17')          # a string constant viewed as bytes: its length and bytes (C13), what write(const byte[]) prints (C17)
            res += L.check_stmts(mk(L), P_, cov)
        finally:
            L.close()
    return res


FAMILIES = {'decl': run_decl, 'decl-array': run_decl_array, 'assign': run_assign, 'incassign': run_incassign, 'exprstmt': run_exprstmt, 'return': run_return, 'return-protected': run_return_protected, 'loopexit': run_loop_exit}


def run(family, w, unchecked):
    return FAMILIES[family](w, unchecked)


def tasks(tier):
    out = []
    P = ('C01', 'C02', 'C03', 'C04', 'C05', 'C08', 'C09', 'C10', 'C13', 'C15', 'C16', 'C17')
    for w in ((2,) if tier == 'quick' else (2, 3, 4)):          # w = 8: see DESIGN 16.10
        for unchecked in ((False, True) if tier == 'thorough' else (False,)):
            for fam in FAMILIES:
                out.append(task(MOD, 'run', P, label=f'stmt/{fam}/w{w}/u{int(unchecked)}', cost=15, family=fam, w=w, unchecked=unchecked))
        if tier == 'quick':
            out.append(task(MOD, 'run', P, label=f'stmt/incassign/w{w}/u1', cost=15, family='incassign', w=w, unchecked=True))
            # a word size that is not a power of two for the families that lay out slots and arrays
            for fam in ('decl', 'decl-array'):
                out.append(task(MOD, 'run', P, label=f'stmt/{fam}/w3/u0', cost=15, family=fam, w=3, unchecked=False))
    return out
